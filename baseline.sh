#!/bin/sh
# MANIFEST.hooks.baseline_off_cmd: the repository's pinned suite with every
# verification guard off (no hook is committed to /repo; the yield points live
# only in scratch copies). Succeeds when every test of BASELINE.json's
# stable_pass list passes (two tests of the suite fail on the pinned tree
# already and are not in that list).
export GOFLAGS=-mod=mod GOPROXY=off GOSUMDB=off GOTOOLCHAIN=local
cd /repo || exit 2
out=/dev/shm/verif.baseline.$$.json
go test -mod=mod -json -vet=off -count=1 -timeout 25m ./... > $out
python3 - $out <<'PY'
import json,sys
passed=set()
for l in open(sys.argv[1]):
    try: e=json.loads(l)
    except Exception: continue
    if e.get('Action')=='pass' and e.get('Test'):
        passed.add(e['Package']+'::'+e['Test'])
want=set(json.load(open('/root/.vp/BASELINE.json'))['stable_pass'])
missing=sorted(want-passed)
print("baseline: stable_pass=%d passing=%d missing=%d"%(len(want),len(want&passed),len(missing)))
for m in missing[:20]: print("  MISSING",m)
sys.exit(1 if missing else 0)
PY
rc=$?
rm -f $out
exit $rc
