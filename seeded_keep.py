#!/usr/bin/env python3
"""seeded_keep.py <srcdir> <id> <property> <go test args...>
Verifies a sub-agent's change with seeded_verify.sh and, if confirmed, keeps it
under /verif/seeded/<id>/ and registers it in mutants.json."""
import json,shutil,os,subprocess,sys
src,id_,prop=sys.argv[1:4]; args=' '.join(sys.argv[4:])
r=subprocess.run(['/verif/seeded_verify.sh',src]+sys.argv[4:],capture_output=True,text=True)
tail=[l for l in r.stdout.splitlines() if l.startswith('RESULT') or l.startswith('suite')]
print(id_, tail)
if r.returncode!=0:
    print(r.stdout[-1500:]); sys.exit(1)
d='/verif/seeded/'+id_
os.makedirs(d,exist_ok=True)
for f in ('patch.diff','demo_test.go'):
    shutil.copy(src+'/'+f,d+'/'+f)
meta=json.load(open(src+'/meta.json'))
meta['id']=id_
meta['origin']='written by a sub-agent that was given only the text of property %s and a scratch worktree (nothing from /verif)'%prop
meta['demo_cmd']='/verif/seeded_verify.sh %s %s'%(d,args)
meta['confirmed']='seeded_verify.sh: patch applies to /repo HEAD, package builds, all 663 stable tests pass with the change, demo fails with it and passes without it'
json.dump(meta,open(d+'/meta.json','w'),indent=1)
m=json.load(open('/verif/mutants.json'))
if id_ not in {x['id'] for x in m['mutants']}:
    m['mutants'].append({"id":id_,"property":prop,"patch":"seeded/"+id_+"/patch.diff","note":"sub-agent seeded change: "+str(meta.get('summary',''))[:200]})
    json.dump(m,open('/verif/mutants.json','w'),indent=1)
