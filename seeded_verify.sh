#!/bin/sh
# Confirms a sub-agent's change before it is kept under /verif/seeded/<id>/:
#   usage: seeded_verify.sh <dir with patch.diff, demo_test.go, meta.json> [go test args for the demo]
# 1. the patch applies to a fresh scratch worktree of /repo's HEAD and the package builds
# 2. the pinned suite still passes with it (every test of BASELINE stable_pass)
# 3. the demonstration fails with the change and passes without it
# The scratch worktree is removed at the end.
set -u
D=$1; shift
DEMOARGS=${*:--run Demo -count=1 .}
export GOFLAGS=-mod=mod GOPROXY=off GOSUMDB=off GOTOOLCHAIN=local
WT=$(mktemp -d /tmp/wt-verify.XXXXXX); rmdir $WT
git -C /repo worktree add --detach $WT HEAD >/dev/null 2>&1 || { echo "worktree failed"; exit 2; }
cp /repo/go.sum $WT/
trap 'git -C /repo worktree remove --force $WT >/dev/null 2>&1' EXIT
cd $WT
git apply $D/patch.diff || { echo "RESULT: patch does not apply"; exit 1; }
go build ./... || { echo "RESULT: does not build"; exit 1; }
go test -json -vet=off -count=1 ./... > $WT/.t.json 2>/dev/null
python3 - $WT/.t.json <<'PY'
import json,sys
passed=set()
for l in open(sys.argv[1]):
    try: e=json.loads(l)
    except Exception: continue
    if e.get('Action')=='pass' and e.get('Test'): passed.add(e['Package']+'::'+e['Test'])
want=set(json.load(open('/root/.vp/BASELINE.json'))['stable_pass'])
missing=sorted(want-passed)
print("suite with change: %d/%d stable tests pass"%(len(want&passed),len(want)))
for m in missing[:10]: print("  MISSING",m)
sys.exit(1 if missing else 0)
PY
SUITE=$?
rm -f $WT/.t.json
cp $D/demo_test.go $WT/zz_demo_test.go
echo "--- demo WITH the change: go test -vet=off $DEMOARGS"
timeout 300 go test -vet=off $DEMOARGS > $WT/.with.txt 2>&1; WITH=$?
tail -5 $WT/.with.txt | cut -c1-300
git checkout -- . 
echo "--- demo WITHOUT the change"
timeout 300 go test -vet=off $DEMOARGS > $WT/.without.txt 2>&1; WITHOUT=$?
tail -3 $WT/.without.txt | cut -c1-300
echo "RESULT: suite_ok=$SUITE demo_with_change_exit=$WITH demo_without_exit=$WITHOUT"
[ $SUITE = 0 ] && [ $WITH != 0 ] && [ $WITHOUT = 0 ]
