#!/bin/sh
# MANIFEST.setup_cmd: build the parent tools from files on disk only (offline)
# and warm the race-enabled standard-library build cache.
set -e
export GOFLAGS=-mod=mod GOPROXY=off GOSUMDB=off GOTOOLCHAIN=local GOWORK=off GO111MODULE=on
cd /verif/sim
[ -f /repo/go.sum ] && cp /repo/go.sum go.sum
mkdir -p /verif/bin /verif/evidence /verif/replays
go build -o /verif/bin/ ./cmd/verif ./cmd/instrument
# warm caches (plain with checkptr, and race): builds nothing that is kept
go build -race -gcflags=all=-d=checkptr=0 -o /dev/null ./cmd/instrument 2>/dev/null || true
echo "setup ok"
