#!/bin/sh
# MANIFEST.setup_cmd: build the parent tools from files on disk only (offline)
# and warm the race-enabled standard-library build cache. Relocatable: builds
# into the directory this script lives in (a background snapshot sets
# VERIF_HOME to that directory when it runs the tools).
set -e
export GOFLAGS=-mod=mod GOPROXY=off GOSUMDB=off GOTOOLCHAIN=local GOWORK=off GO111MODULE=on
HERE=$(cd "$(dirname "$0")" && pwd)
cd "$HERE/sim"
[ -f /repo/go.sum ] && cp /repo/go.sum go.sum
mkdir -p "$HERE/bin" "$HERE/evidence" "$HERE/replays"
go build -o "$HERE/bin/" ./cmd/verif ./cmd/instrument
# warm the race build cache: builds nothing that is kept
go build -race -gcflags=all=-d=checkptr=0 -o /dev/null ./cmd/instrument 2>/dev/null || true
echo "setup ok"
