#!/usr/bin/env python3
"""Writes /verif/MANIFEST.json from the tables below (kept in one place so the
not_applicable list always covers every property that is not claimed)."""
import json

NA = {
 "C01": "pure function decode(encode(x)) of one value: no schedule, clock, fault, crash point or history enters the statement; a simulator would contribute only an input generator (property-based testing under another name). A damaged wire between the two calls is C04's subject. DESIGN.md §6.",
 "C02": "pure function of the strings a value holds, needs generated strings and an independent JSON parser, not a scheduler; the only failure path (nested MarshalJSON returning an error) is unreachable with vocabulary types, so there is nothing to inject. DESIGN.md §6.",
 "C03": "pure function decode(encode(x)); the one nondeterministic ingredient (gob writes the property map in hash order) cannot be seeded from outside the runtime and cannot matter because the decoder looks keys up in a map. DESIGN.md §6.",
 "C05": "pure function of a generated document against an independent model; 're-encode until stable' is function iteration, not a history of interacting operations. DESIGN.md §6.",
 "C06": "pure function of one string through two codecs; no schedule, fault or history. DESIGN.md §6.",
 "C07": "a finite cross product (about 60 names x 5 paths x 2 hook settings) the property itself asks to enumerate completely - enumeration of a bounded space is not seeded search; hook installation concurrent with decoding is an unsynchronised write the API never promised to tolerate. DESIGN.md §6.",
 "C08": "a static obligation per pointer-reinterpreting cast site about struct layouts plus the runtime pointer checker; what a widened view reads depends on the allocator, which cannot be seeded. DESIGN.md §6 and §3.7.",
 "C09": "algebraic laws over pairs of values: pure, no schedule/fault/history. DESIGN.md §6.",
 "C10": "one call mutating its receiver; the 'interleavings of duplicates' are input patterns, not schedules; delivery fan-out, retries and exactly-once belong to a server this repository does not contain. DESIGN.md §6.",
 "C11": "one call with a pure post-condition. DESIGN.md §6.",
 "C14": "a relation over pairs of strings: pure. DESIGN.md §6.",
 "C15": "an inverse law over strings: pure. DESIGN.md §6.",
 "C16": "one call (idempotence is the same call twice on one input): pure. DESIGN.md §6.",
 "C17": "order laws over triples; sort.Slice is deterministic for a given input permutation. DESIGN.md §6.",
 "C18": "one call on a pair; the library has no failure point inside the merge at which a crash could be injected. DESIGN.md §6.",
 "C20": "a helper x nil-kind matrix to enumerate in full; no schedule or fault. DESIGN.md §6.",
}

CHECKS = {
 "C19": dict(
  level="exploration",
  text="Seeded search over call histories (Set/Append/Add/Get/Count/First) and over pairs of lists (Equals) on the real NaturalLanguageValues container, checked step by step against an executable reference (ordered list of tag/text pairs) with the property's relational clauses as the oracle; failing histories are tape-minimised and replay exactly in a fresh process. Sampling, not proof: a clean batch is evidence for the explored histories only.",
  ref="§5.2", technique="deterministic simulation: seeded history generation + refinement against a reference model, tape-shrinking minimiser, exact replay (no fault or schedule dimension exists for this container)",
  note="Trusted: the harness's reference list and the rendering of the property's clauses (Append/Add append one entry at the end; Set may overwrite every entry with the tag). Single caller goroutine by the container's contract. The library under test is an instrumented scratch copy of /repo's working tree (a yield call before every statement, otherwise identical)."),
 "C13": dict(
  level="exploration",
  text="Seeded search over Append/Contains/Remove/Count histories on all six collection kinds (item list, IRI list, Collection, OrderedCollection and their pages; through their own methods, through CollectionInterface and, for Remove, through the item-list view) against an insertion-ordered-set reference model, with capacity/aliasing knobs; exhaustive up to a stated small bound, seeded beyond (big runs with pools of 20..80 items and 150 calls, half of them ending in a fill-and-drain phase that empties the grown collection member by member); in the clients mode two or three independent collections are driven by tasks under the seeded statement-level scheduler and each is checked against its own model (package-level state inside the library that no sequential history can see); minimised exact replays.",
  ref="§5.1", technique="deterministic simulation: seeded + bounded-exhaustive history generation, refinement against an insertion-ordered-set model, seeded statement-level scheduler over independent clients, tape-shrinking minimiser, exact replay (no fault dimension exists)",
  note="Trusted: the reference model and the identity function of pool items (pairwise distinct ids, URL-shaped and opaque; what the items hold in their own lists may lack ids). One caller goroutine per collection by contract."),
 "C04": dict(
  level="fault_enumeration",
  text="Writer -> faulty wire/disk -> reader simulation: every encoding the library, a repository mock, a peer-style JSON writer or a foreign-schema gob writer produces is damaged by storage/transport faults (torn write at every offset, single-bit flips at every position, chunk drop/duplicate/zero/swap, stale tail, splice, and record-level faults of a field-granular store: a text cut at a column width, a lost field, a value written under the wrong key, two values swapped, a text overwritten by a fill pattern; composed up to three in the seeded tier) and handed to every exported decode entry point; whatever value comes back is inspected, compared, re-encoded in both codecs and formatted. Oracles: no panic, no process death (stack overflow, fatal throw with checkptr on), time proportional to the input in simulated time (executed statements plus bytes handed to bulk primitives), bounded allocation and retention. Decides C04 for byte strings within three faults of a produced encoding, not for all byte strings.",
  ref="§4", technique="deterministic simulation with fault injection: fault-enumerating and seeded faulty wire between real encoder and real decoders, process-isolated crash oracle, minimised exact replays",
  note="Trusted: the Go runtime's checkptr instrumentation (turns an out-of-bounds pointer view into a deterministic throw), the step counter inserted by the instrumenter, the parent's death classification. Inputs that are neither a damaged encoding nor a peer's spelling (nesting beyond 32 levels, byte strings built to collide or exhaust) are outside this check."),
 "C12": dict(
  level="exploration",
  text="N caller goroutines (2..6 tasks) apply read-only operations to one shared vocabulary value and decode private inputs under a seeded scheduler that decides every interleaving at library-statement granularity (random walk, PCT, preempt-at-site); four oracles: ThreadSanitizer (tasks handed off through raw pipe syscalls so they stay unordered for the race detector), deep write-freedom fingerprint over the whole reachable memory incl. spare slice capacity at switches and operation returns, equality of every result with the sequential result (incl. values a task decoded earlier and kept), and no overlap between an encoder's returned bytes and the shared value. Cold-start runs (first run of a fresh process, concurrent phase before any sequential pass) expose unsynchronised lazy initialisation; the library's clock reads are redirected to a simulated clock that jumps forwards and backwards between and inside operations (clock faults); deadlock detection; Lock/RLock/Once.Do are made cooperative so that correctly synchronised code stays quiet. Seeded sampling of schedules; failing schedules are minimised (fewer tasks, ops, switches) and replay exactly.",
  ref="§3", technique="deterministic simulation: seeded statement-granularity scheduler over real goroutines + race detector + memory fingerprint + sequential-equivalence oracle, schedule minimisation, exact replay",
  note="Trusted: ThreadSanitizer, the instrumenter's yield placement (segments inside dependencies are atomic in the simulation, though their accesses are still seen by the race detector), the fingerprint walker. Mutators are excluded by an explicit, justified list."),
}

BUILT = ["C04", "C12", "C13", "C19"]   # checks that exist in this commit

PENDING_REASON = "claimed in DESIGN.md (%s) but its check is not built yet in this commit; listed here only until it is"

def main():
    checks=[]
    na=[{"property_id":k,"reason":v} for k,v in sorted(NA.items())]
    for pid,c in sorted(CHECKS.items()):
        if pid not in BUILT:
            na.append({"property_id":pid,"reason":PENDING_REASON % c["ref"]})
            continue
        checks.append({
          "property_id":pid,
          "quick_cmd":"/verif/bin/verif check %s --tier quick"%pid,
          "thorough_cmd":"/verif/bin/verif check %s --tier thorough"%pid,
          "evidence_file":"/verif/evidence/%s.json"%pid,
          "replay_cmd_template":"/verif/bin/verif replay {path}",
          "engine":"verif-sim",
          "level_claimed":{"category":c["level"],"text":c["text"],"design_ref":"DESIGN.md "+c["ref"]},
          "level_note":c["note"],
          "technique":c["technique"],
        })
    na.sort(key=lambda x:x["property_id"])
    m={
     "version":1,
     "setup_cmd":"/verif/setup.sh",
     "hooks":{
       "guard":"verif",
       "enable":"no hook is committed to /repo: every check copies /repo's working tree to a scratch directory (tmpfs) and /verif/bin/instrument inserts the yield seam `verifsim.Y(site)` before every statement of that copy; the harness is then built against the copy",
       "baseline_off_cmd":"/verif/baseline.sh",
       "source_commits":[],
       "add_only":True
     },
     "engines":[{"name":"verif-sim","path":"/verif/sim","serves_properties":sorted(BUILT),
       "kind_free_text":"deterministic simulator: choice tape from VERIF_SEED, statement-level yield instrumentation of a scratch copy, seeded scheduler over real goroutines (C12), fault-injecting wire (C04), reference-model refinement (C13, C19), process-isolated oracles, tape/schedule minimiser, exact replay"}],
     "checks":checks,
     "not_applicable":na,
     "notes":"See DESIGN.md. Repairs of genuine defects are 'fix:' commits in /repo and are recorded in /verif/known_findings.json."
    }
    json.dump(m,open("/verif/MANIFEST.json","w"),indent=1)
    print("MANIFEST.json: %d checks, %d not_applicable"%(len(checks),len(na)))

main()
