#!/bin/sh
# development helper (not used by any registered command): keeps an instrumented
# scratch build under /dev/shm/vdev for experiments. Remove with: rm -rf /dev/shm/vdev
set -e
export GOFLAGS=-mod=mod GOPROXY=off GOSUMDB=off GOTOOLCHAIN=local GOWORK=off
R=${VERIF_REPO:-/repo}
S=/dev/shm/vdev; rm -rf $S; mkdir -p $S/ap
cp $R/*.go $R/go.mod $S/ap/; [ -f $R/go.sum ] && cp $R/go.sum $S/ap/; rm -f $S/ap/*_test.go
cp -r $R/tests/mocks $S/ap/verifmocks
/verif/bin/instrument $S/ap >/dev/null
cp -r /verif/sim $S/h
printf 'module verif.local/sim\n\ngo 1.23\n\nrequire github.com/go-ap/activitypub v0.0.0\n\nreplace github.com/go-ap/activitypub => ../ap\n' > $S/h/go.mod
cp $S/ap/go.sum $S/h/go.sum 2>/dev/null || true
cd $S/h && go build -gcflags=github.com/go-ap/activitypub=-d=checkptr=1 -o $S/sim ./cmd/sim
[ "$1" = race ] && go build -race -gcflags=all=-d=checkptr=0 -o $S/sim-race ./cmd/sim
echo built $S/sim
