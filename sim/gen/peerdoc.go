package gen

import (
	"encoding/json"
	"fmt"

	"verif.local/sim/core"
)

// PeerDoc writes an ActivityStreams document the way a foreign server does
// (Mastodon / Pleroma style), with encoding/json – not with the library.
// It uses admissible shapes the library's own encoder never emits: an
// object-valued @context entry, language maps under the plain term and under
// the *Map term, null members, properties given as arrays where the library
// writes a single value, embedded first pages, typed tags without ids,
// unknown extension properties. These are the clean messages of a peer that
// the faulty wire then damages (C04) and that tasks decode privately (C12).
func PeerDoc(t *core.Tape) []byte {
	v := peerValue(t, 0)
	// "mistyped" members: in a third of the documents one to three members (at any depth) are given
	// in another shape that peers do use or that the vocabulary allows: a string as a one-element
	// array and back, an embedded object by its id, an object inside an array, null, a number as a
	// string, a boolean as a string
	if t.Bool(1, 3) {
		for i, n := 0, 1+t.Draw(3); i < n; i++ {
			perturbShape(t, v)
		}
	}
	var doc any = v
	// documents need not be objects: a bare list of values and ids, a bare id
	switch t.Draw(16) {
	case 0:
		doc = []any{v, peerID(t, "notes"), peerValue(t, 2)}
	case 1:
		doc = peerID(t, "notes")
	}
	b, _ := json.Marshal(doc)
	return b
}

// perturbShape walks to a random member of the document and changes its shape.
func perturbShape(t *core.Tape, node map[string]any) {
	for depth := 0; depth < 6; depth++ {
		keys := make([]string, 0, len(node))
		for k := range node {
			if k != "@context" {
				keys = append(keys, k)
			}
		}
		if len(keys) == 0 {
			return
		}
		sortStrings(keys)
		k := keys[t.Draw(len(keys))]
		v := node[k]
		// descend into nested objects half of the time
		if m, ok := v.(map[string]any); ok && t.Bool(1, 2) {
			node = m
			continue
		}
		if arr, ok := v.([]any); ok && len(arr) > 0 && t.Bool(1, 2) {
			if m, ok := arr[t.Draw(len(arr))].(map[string]any); ok {
				node = m
				continue
			}
		}
		switch x := v.(type) {
		case string:
			switch t.Draw(3) {
			case 0:
				node[k] = []any{x}
			case 1:
				node[k] = nil
			default:
				node[k] = map[string]any{"id": x}
			}
		case map[string]any:
			switch t.Draw(4) {
			case 0:
				if id, ok := x["id"].(string); ok {
					node[k] = id
				} else {
					node[k] = "https://peer.example/linked/" + k
				}
			case 1:
				node[k] = []any{x}
			case 2:
				node[k] = nil
			default:
				node[k] = []any{}
			}
		case []any:
			switch t.Draw(3) {
			case 0:
				if len(x) > 0 {
					node[k] = x[0]
				} else {
					node[k] = nil
				}
			case 1:
				node[k] = map[string]any{"type": "Collection", "items": x}
			default:
				node[k] = "https://peer.example/linked/" + k
			}
		case float64, int:
			// a number as a string, or one of the magnitudes a peer may legally write
			switch t.Draw(3) {
			case 0:
				node[k] = fmt.Sprint(x)
			default:
				node[k] = json.RawMessage(peerNumbers[t.Draw(len(peerNumbers))])
			}
		case bool:
			node[k] = fmt.Sprint(x)
		case nil:
			node[k] = map[string]any{}
		}
		return
	}
}

func sortStrings(a []string) {
	for i := 1; i < len(a); i++ {
		for j := i; j > 0 && a[j] < a[j-1]; j-- {
			a[j], a[j-1] = a[j-1], a[j]
		}
	}
}

// numbers a JSON writer may emit for any numeric member: negative, fractional, with an exponent, beyond
// 64 bits, beyond float64, tiny
var peerNumbers = []string{"-1", "0.5", "-0", "1e3", "1E+2", "4294967296", "18446744073709551615", "18446744073709551616",
	"99999999999999999999999999", "-9223372036854775809", "1e400", "-1e400", "1e-400", "0.0000000000000000000000001", "1.7976931348623157e308", "123456789.123456789e-5"}

// ids and links in the forms that occur in the fediverse or that RFC 3986 allows: the library parses them with
// net/url in comparisons, path helpers and formatting
var peerOddIRIs = []string{"acct:user@peer.example", "urn:uuid:6ba7b810-9dad-11d1-80b4-00c04fd430c8", "mailto:user@peer.example", "did:web:peer.example:users:1",
	"/users/1", "users/1", "", "#main-key", "?page=2", "//peer.example/users/1", "https://[::1]:8443/users/1", "https://peer.example:/users/1",
	"https://PEER.example/Users/1/", "https://user:pw@peer.example/users/1", "https://peer.example/users/%zz", "https://peer.example/users/a%20b?x=%41#frag",
	"https://peer.example/users/éè", "https://xn--nxasmq6b.example/users/1", "http://peer.example:80/users/1/../2", "https://peer.example/" + "very/long/" + "path/path/path/path/path/path/path/path/path/path/path/path/path/path/path/path",
	"https://www.w3.org/ns/activitystreams#Public", "as:Public", "Public", "https:", "https://", ":", "://", "tag:peer.example,2024:objectId=1:objectType=Status",
	// other schemes in use or proposed in the fediverse and next to it, with and without the parts that usually follow
	"ap://did:key:z6MkhaXgBZDvotDkL5257faiztiGiC2QtKLGpbnnEGta2doK/actor", "ap://did:key:z6MkhaXgBZDvotDkL5257faiztiGiC2QtKLGpbnnEGta2doK", "ap://", "ap:",
	"at://did:plc:ewvi7nxzyoun6zhxrhs64oiz/app.bsky.feed.post/3k", "at://", "ipfs://bafybeigdyrzt5sfp7udm7hu76uh7y26nf3efuylqabf3oclgtqy55fbzdi", "nostr:npub10elfcs4fr0l0r8af98jlmgdh9c8tcxjvz9qkw038js35mp4dma8qzvjptg",
	"hyper://a1b2c3/x", "gemini://peer.example/", "data:text/plain;base64,SGk=", "file:///etc/hostname", "magnet:?xt=urn:btih:c12fe1c06bba254a9dc9f519b335aa7c1367a88a", "javascript:void(0)", "ws://peer.example/socket"}

// times the way peers write them
var peerTimes = []string{"2024-03-05T10:00:00Z", "2024-03-05T10:00:00.123Z", "2024-03-05T10:00:00.123456789+01:00", "2024-03-05T10:00:00-23:59", "2024-03-05T10:00Z",
	"2024-03-05", "0000-01-01T00:00:00Z", "9999-12-31T23:59:59Z", "1969-12-31T23:59:59Z", "2024-02-30T10:00:00Z", "2024-03-05T24:00:00Z", "2024-03-05 10:00:00 UTC", "1709632800", ""}

var peerDurations = []string{"PT5M", "P1Y2M3DT4H5M6S", "PT0S", "P1W", "-PT5M", "PT1.5S", "P99999999999Y", "PT", "P", "5m", ""}

func peerTime(t *core.Tape) string {
	if t.Bool(3, 4) {
		return "2024-03-0" + fmt.Sprint(1+t.Draw(9)) + "T12:00:0" + fmt.Sprint(t.Draw(10)) + "Z"
	}
	return peerTimes[t.Draw(len(peerTimes))]
}

var peerShort = []string{"Hi", "a", "ok", "é", "-", "x y", "<p>longer <b>html</b> text</p>", "12", "", "line\nbreak", `quote"d`, `back\slash`}

func peerText(t *core.Tape) string { return peerShort[t.Draw(len(peerShort))] }

// peerValueObject: a text in JSON-LD's expanded form, as some processors write it (with or without
// a language, alone or in an array).
func peerValueObject(t *core.Tape) any {
	v := map[string]any{"@value": peerText(t)}
	if t.Bool(1, 2) {
		v["@language"] = []string{"en", "fr", "und"}[t.Draw(3)]
	}
	if t.Bool(1, 3) {
		return []any{v, map[string]any{"@value": peerText(t), "@language": "de"}}
	}
	return v
}

func peerLangMap(t *core.Tape) map[string]any {
	m := map[string]any{}
	for _, l := range []string{"en", "fr", "de", "und"}[:1+t.Draw(4)] {
		m[l] = peerText(t)
	}
	return m
}

func peerID(t *core.Tape, kind string) string {
	if t.Bool(1, 24) {
		return peerOddIRIs[t.Draw(len(peerOddIRIs))]
	}
	return fmt.Sprintf("https://peer.example/%s/%d", kind, 1+t.Draw(5000))
}

func peerContext(t *core.Tape) any {
	as := "https://www.w3.org/ns/activitystreams"
	ext := map[string]any{"toot": "http://joinmastodon.org/ns#", "sensitive": "as:sensitive", "Hashtag": "as:Hashtag"}
	switch t.Draw(5) {
	case 0:
		return as
	case 1:
		return []any{as, "https://w3id.org/security/v1"}
	case 2:
		return []any{as, ext}
	case 3:
		return []any{as, "https://w3id.org/security/v1", map[string]any{"@language": []string{"und", "en"}[t.Draw(2)]}}
	default:
		return map[string]any{"@vocab": as, "@language": "en"}
	}
}

func peerNote(t *core.Tape, depth int) map[string]any {
	n := map[string]any{
		"id":           peerID(t, "notes"),
		"type":         []string{"Note", "Article", "Question", "Page", "Video"}[t.Draw(5)],
		"attributedTo": peerID(t, "users"),
		"to":           []any{"https://www.w3.org/ns/activitystreams#Public"},
		"cc":           []any{peerID(t, "users") + "/followers", peerID(t, "users")},
		"published":    peerTime(t),
		"sensitive":    t.Bool(1, 2),
	}
	switch t.Draw(5) {
	case 4:
		n["content"] = peerValueObject(t)
		if t.Bool(1, 2) {
			n["name"] = peerValueObject(t)
		}
	case 0:
		n["content"] = peerText(t)
	case 1:
		n["content"] = peerLangMap(t) // language map under the plain term
	case 2:
		n["content"] = peerText(t)
		n["contentMap"] = peerLangMap(t)
	}
	if t.Bool(1, 2) {
		n["summary"] = nil
	} else {
		n["summary"] = peerText(t)
	}
	if t.Bool(1, 2) {
		n["name"] = peerLangMap(t)
	}
	if t.Bool(1, 2) {
		n["inReplyTo"] = nil
	} else if depth < 2 && t.Bool(1, 3) {
		n["inReplyTo"] = peerNote(t, depth+1)
	} else {
		n["inReplyTo"] = peerID(t, "notes")
	}
	if t.Bool(1, 2) {
		n["url"] = peerID(t, "@user")
	} else {
		n["url"] = []any{map[string]any{"type": "Link", "mediaType": "text/html", "href": peerID(t, "@user")}, map[string]any{"type": "Link", "mediaType": "video/mp4", "href": peerID(t, "media"), "height": 720, "width": 1280}}
	}
	if t.Bool(1, 2) {
		n["attachment"] = []any{map[string]any{"type": "Document", "mediaType": "image/png", "url": peerID(t, "media"), "name": nil, "blurhash": "UBL_:rOpGG", "width": 640, "height": 480}}
	}
	if t.Bool(1, 2) {
		tags := []any{map[string]any{"type": "Mention", "href": peerID(t, "users"), "name": "@someone@peer.example"}}
		if t.Bool(1, 2) {
			tags = append(tags, map[string]any{"type": "Hashtag", "href": "https://peer.example/tags/go", "name": "#go"})
		}
		if t.Bool(1, 3) {
			tags = append(tags, map[string]any{"id": peerID(t, "emojis"), "type": "Emoji", "name": ":blob:", "icon": map[string]any{"type": "Image", "url": peerID(t, "media")}})
		}
		n["tag"] = tags
	}
	if t.Bool(1, 2) && depth < 2 {
		page := map[string]any{"type": "CollectionPage", "next": n["id"].(string) + "/replies?page=true", "partOf": n["id"].(string) + "/replies", "items": []any{}}
		if t.Bool(1, 2) {
			page["items"] = []any{peerID(t, "notes"), peerNote(t, depth+2)}
		}
		n["replies"] = map[string]any{"id": n["id"].(string) + "/replies", "type": "Collection", "first": page}
	}
	if t.Bool(1, 4) {
		n["updated"] = peerTime(t)
		n["startTime"] = peerTime(t)
		n["endTime"] = peerTime(t)
		n["duration"] = peerDurations[t.Draw(len(peerDurations))]
	}
	if t.Bool(1, 4) {
		n["source"] = map[string]any{"content": peerText(t), "mediaType": []string{"text/markdown", "text/plain", "", "text/html; charset=utf-8"}[t.Draw(4)]}
	}
	if t.Bool(1, 6) {
		n["audience"] = peerID(t, "groups")
		n["bto"] = []any{peerID(t, "users")}
		n["bcc"] = peerID(t, "users")
		n["generator"] = map[string]any{"type": "Application", "name": "peer-app"}
		n["image"] = []any{map[string]any{"type": "Image", "url": []any{peerID(t, "media"), map[string]any{"type": "Link", "href": peerID(t, "media"), "mediaType": "image/webp"}}}}
		n["preview"] = map[string]any{"type": "Video", "name": "Trailer", "duration": "PT1M", "url": map[string]any{"href": peerID(t, "media"), "mediaType": "video/mkv"}}
		n["context"] = peerID(t, "contexts")
		n["mediaType"] = "text/html"
	}
	if n["type"] == "Question" {
		n["oneOf"] = []any{map[string]any{"type": "Note", "name": "yes", "replies": map[string]any{"type": "Collection", "totalItems": t.Draw(100)}}, map[string]any{"type": "Note", "name": "no"}}
		switch t.Draw(4) {
		case 0:
			n["closed"] = peerTime(t)
		case 1:
			n["closed"] = true
		case 2:
			n["closed"] = peerID(t, "notes")
		default:
			n["closed"] = map[string]any{"type": "Note", "name": "closed by moderator"}
		}
		if t.Bool(1, 2) {
			n["anyOf"] = n["oneOf"]
			delete(n, "oneOf")
		}
		n["votersCount"] = t.Draw(1000)
	}
	return n
}

func peerActor(t *core.Tape) map[string]any {
	id := peerID(t, "users")
	a := map[string]any{
		"id": id, "type": []string{"Person", "Service", "Group", "Application"}[t.Draw(4)],
		"inbox": id + "/inbox", "outbox": id + "/outbox", "followers": id + "/followers", "following": id + "/following",
		"preferredUsername":         "user" + fmt.Sprint(t.Draw(100)),
		"name":                      peerText(t),
		"summary":                   "<p>" + peerText(t) + "</p>",
		"url":                       "https://peer.example/@user",
		"manuallyApprovesFollowers": false,
		"discoverable":              true,
		"publicKey": map[string]any{"id": id + "#main-key", "owner": id,
			"publicKeyPem": "-----BEGIN PUBLIC KEY-----\nMIIBIjANBgkqhkiG9w0BAQEFAAOCAQ8AMIIBCgKCAQEA" + fmt.Sprint(t.Draw(100000)) + "\n-----END PUBLIC KEY-----\n"},
	}
	if t.Bool(2, 3) {
		a["endpoints"] = map[string]any{"sharedInbox": "https://peer.example/inbox"}
	}
	if t.Bool(1, 2) {
		a["icon"] = map[string]any{"type": "Image", "mediaType": "image/jpeg", "url": peerID(t, "media")}
	}
	if t.Bool(1, 3) {
		a["attachment"] = []any{map[string]any{"type": "PropertyValue", "name": "Site", "value": "<a href=\"https://x.example\">x</a>"}}
	}
	if t.Bool(1, 3) {
		a["nameMap"] = peerLangMap(t)
	}
	return a
}

func peerCollection(t *core.Tape) map[string]any {
	id := peerID(t, "users") + "/outbox"
	typ := []string{"OrderedCollection", "Collection", "OrderedCollectionPage", "CollectionPage"}[t.Draw(4)]
	c := map[string]any{"id": id, "type": typ, "totalItems": []int{0, 3, 70000, 1 << 24}[t.Draw(4)]}
	items := []any{}
	for i, n := 0, t.Draw(4); i < n; i++ {
		if t.Bool(1, 2) {
			items = append(items, peerID(t, "notes"))
		} else {
			items = append(items, map[string]any{"id": peerID(t, "activities"), "type": "Create", "actor": peerID(t, "users"), "object": peerNote(t, 2)})
		}
	}
	key := "items"
	if typ[0] == 'O' {
		key = "orderedItems"
	}
	switch t.Draw(3) {
	case 0:
		c["first"] = id + "?page=true"
		c["last"] = id + "?min_id=0&page=true"
	case 1:
		c["first"] = map[string]any{"id": id + "?page=1", "type": typ[:len(typ)-0], "partOf": id, key: items, "next": id + "?page=2"}
	default:
		c[key] = items
	}
	if len(typ) > 17 || typ == "CollectionPage" {
		c["partOf"] = id
		c["next"] = id + "?page=2"
		c["prev"] = id + "?page=0"
		c[key] = items
	}
	return c
}

func peerValue(t *core.Tape, depth int) map[string]any {
	var v map[string]any
	switch t.Draw(8) {
	case 0, 1:
		v = peerNote(t, depth)
	case 6:
		// the rarer object kinds, with the members only they have
		switch t.Draw(5) {
		case 0:
			v = map[string]any{"id": peerID(t, "places"), "type": "Place", "name": peerLangMap(t), "latitude": 36.75, "longitude": -119.7667, "altitude": 15.0, "accuracy": 94.5, "radius": 15, "units": []string{"miles", "m", "cm", "https://peer.example/units/furlong", ""}[t.Draw(5)]}
		case 1:
			v = map[string]any{"id": peerID(t, "profiles"), "type": "Profile", "summary": peerText(t), "describes": peerActor(t)}
		case 2:
			v = map[string]any{"id": peerID(t, "rels"), "type": "Relationship", "subject": peerActor(t), "relationship": "http://purl.org/vocab/relationship/acquaintanceOf", "object": []any{peerID(t, "users"), peerActor(t)}}
		case 3:
			v = map[string]any{"id": peerID(t, "notes"), "type": "Tombstone", "formerType": []any{"Note", "Image"}[t.Draw(2)], "deleted": peerTime(t), "summary": peerLangMap(t)}
		default:
			v = map[string]any{"type": []string{"Mention", "Link", "Hashtag"}[t.Draw(3)], "href": peerID(t, "users"), "name": "@user", "hreflang": "en", "mediaType": "text/html", "rel": []any{"canonical", "preview"}, "height": 100, "width": 100, "preview": peerID(t, "media")}
		}
	case 7:
		// intransitive activities and the activity members the common ones do not use
		v = map[string]any{"id": peerID(t, "activities"), "type": []string{"Arrive", "Travel", "Question", "Move", "Offer", "Invite"}[t.Draw(6)],
			"actor": []any{peerID(t, "users"), peerActor(t)}, "origin": peerID(t, "places"), "target": map[string]any{"type": "Place", "name": "Work", "latitude": 1, "longitude": 2},
			"result": peerNote(t, 2), "instrument": map[string]any{"type": "Service", "name": "peer-service"}, "published": peerTime(t), "summaryMap": peerLangMap(t)}
		if t.Bool(1, 2) {
			v["object"] = []any{peerID(t, "notes"), peerNote(t, 2)}
		}
	case 2:
		v = peerActor(t)
	case 3:
		v = peerCollection(t)
	case 4:
		// an activity with an embedded object
		v = map[string]any{"id": peerID(t, "activities"), "type": []string{"Create", "Update", "Announce", "Like", "Follow", "Undo", "Delete"}[t.Draw(7)],
			"actor": peerID(t, "users"), "to": []any{"https://www.w3.org/ns/activitystreams#Public"}, "cc": []any{}, "published": "2024-03-05T10:00:00Z"}
		switch t.Draw(3) {
		case 0:
			v["object"] = peerNote(t, depth+1)
		case 1:
			v["object"] = peerID(t, "notes")
		default:
			v["object"] = map[string]any{"id": peerID(t, "notes"), "type": "Tombstone", "formerType": "Note", "deleted": "2024-03-06T00:00:00Z"}
		}
		if t.Bool(1, 3) {
			v["actor"] = peerActor(t)
		}
		if t.Bool(1, 4) {
			v["signature"] = map[string]any{"type": "RsaSignature2017", "creator": peerID(t, "users") + "#main-key", "signatureValue": "abc="}
		}
	default:
		// "type" as an array, id-less embedded place
		v = peerNote(t, depth)
		v["type"] = []any{v["type"], "as:Sensitive"}
		v["location"] = map[string]any{"type": "Place", "name": "somewhere", "latitude": 47.3, "longitude": 8.5, "radius": 10, "units": "km"}
	}
	v["@context"] = peerContext(t)
	return v
}
