package gen

import (
	"encoding/json"
	"fmt"

	"verif.local/sim/core"
)

// PeerDoc writes an ActivityStreams document the way a foreign server does
// (Mastodon / Pleroma style), with encoding/json – not with the library.
// It uses admissible shapes the library's own encoder never emits: an
// object-valued @context entry, language maps under the plain term and under
// the *Map term, null members, properties given as arrays where the library
// writes a single value, embedded first pages, typed tags without ids,
// unknown extension properties. These are the clean messages of a peer that
// the faulty wire then damages (C04) and that tasks decode privately (C12).
func PeerDoc(t *core.Tape) []byte {
	v := peerValue(t, 0)
	// "mistyped" members: in a third of the documents one to three members (at any depth) are given
	// in another shape that peers do use or that the vocabulary allows: a string as a one-element
	// array and back, an embedded object by its id, an object inside an array, null, a number as a
	// string, a boolean as a string
	if t.Bool(1, 3) {
		for i, n := 0, 1+t.Draw(3); i < n; i++ {
			perturbShape(t, v)
		}
	}
	b, _ := json.Marshal(v)
	return b
}

// perturbShape walks to a random member of the document and changes its shape.
func perturbShape(t *core.Tape, node map[string]any) {
	for depth := 0; depth < 6; depth++ {
		keys := make([]string, 0, len(node))
		for k := range node {
			if k != "@context" {
				keys = append(keys, k)
			}
		}
		if len(keys) == 0 {
			return
		}
		sortStrings(keys)
		k := keys[t.Draw(len(keys))]
		v := node[k]
		// descend into nested objects half of the time
		if m, ok := v.(map[string]any); ok && t.Bool(1, 2) {
			node = m
			continue
		}
		if arr, ok := v.([]any); ok && len(arr) > 0 && t.Bool(1, 2) {
			if m, ok := arr[t.Draw(len(arr))].(map[string]any); ok {
				node = m
				continue
			}
		}
		switch x := v.(type) {
		case string:
			switch t.Draw(3) {
			case 0:
				node[k] = []any{x}
			case 1:
				node[k] = nil
			default:
				node[k] = map[string]any{"id": x}
			}
		case map[string]any:
			switch t.Draw(4) {
			case 0:
				if id, ok := x["id"].(string); ok {
					node[k] = id
				} else {
					node[k] = "https://peer.example/linked/" + k
				}
			case 1:
				node[k] = []any{x}
			case 2:
				node[k] = nil
			default:
				node[k] = []any{}
			}
		case []any:
			switch t.Draw(3) {
			case 0:
				if len(x) > 0 {
					node[k] = x[0]
				} else {
					node[k] = nil
				}
			case 1:
				node[k] = map[string]any{"type": "Collection", "items": x}
			default:
				node[k] = "https://peer.example/linked/" + k
			}
		case float64, int:
			node[k] = fmt.Sprint(x)
		case bool:
			node[k] = fmt.Sprint(x)
		case nil:
			node[k] = map[string]any{}
		}
		return
	}
}

func sortStrings(a []string) {
	for i := 1; i < len(a); i++ {
		for j := i; j > 0 && a[j] < a[j-1]; j-- {
			a[j], a[j-1] = a[j-1], a[j]
		}
	}
}

var peerShort = []string{"Hi", "a", "ok", "é", "-", "x y", "<p>longer <b>html</b> text</p>", "12", "", "line\nbreak", `quote"d`, `back\slash`}

func peerText(t *core.Tape) string { return peerShort[t.Draw(len(peerShort))] }

func peerLangMap(t *core.Tape) map[string]any {
	m := map[string]any{}
	for _, l := range []string{"en", "fr", "de", "und"}[:1+t.Draw(4)] {
		m[l] = peerText(t)
	}
	return m
}

func peerID(t *core.Tape, kind string) string {
	return fmt.Sprintf("https://peer.example/%s/%d", kind, 1+t.Draw(5000))
}

func peerContext(t *core.Tape) any {
	as := "https://www.w3.org/ns/activitystreams"
	ext := map[string]any{"toot": "http://joinmastodon.org/ns#", "sensitive": "as:sensitive", "Hashtag": "as:Hashtag"}
	switch t.Draw(5) {
	case 0:
		return as
	case 1:
		return []any{as, "https://w3id.org/security/v1"}
	case 2:
		return []any{as, ext}
	case 3:
		return []any{as, "https://w3id.org/security/v1", map[string]any{"@language": []string{"und", "en"}[t.Draw(2)]}}
	default:
		return map[string]any{"@vocab": as, "@language": "en"}
	}
}

func peerNote(t *core.Tape, depth int) map[string]any {
	n := map[string]any{
		"id":           peerID(t, "notes"),
		"type":         []string{"Note", "Article", "Question", "Page", "Video"}[t.Draw(5)],
		"attributedTo": peerID(t, "users"),
		"to":           []any{"https://www.w3.org/ns/activitystreams#Public"},
		"cc":           []any{peerID(t, "users") + "/followers", peerID(t, "users")},
		"published":    "2024-03-0" + fmt.Sprint(1+t.Draw(9)) + "T12:00:0" + fmt.Sprint(t.Draw(10)) + "Z",
		"sensitive":    t.Bool(1, 2),
	}
	switch t.Draw(4) {
	case 0:
		n["content"] = peerText(t)
	case 1:
		n["content"] = peerLangMap(t) // language map under the plain term
	case 2:
		n["content"] = peerText(t)
		n["contentMap"] = peerLangMap(t)
	}
	if t.Bool(1, 2) {
		n["summary"] = nil
	} else {
		n["summary"] = peerText(t)
	}
	if t.Bool(1, 2) {
		n["name"] = peerLangMap(t)
	}
	if t.Bool(1, 2) {
		n["inReplyTo"] = nil
	} else if depth < 2 && t.Bool(1, 3) {
		n["inReplyTo"] = peerNote(t, depth+1)
	} else {
		n["inReplyTo"] = peerID(t, "notes")
	}
	if t.Bool(1, 2) {
		n["url"] = peerID(t, "@user")
	} else {
		n["url"] = []any{map[string]any{"type": "Link", "mediaType": "text/html", "href": peerID(t, "@user")}, map[string]any{"type": "Link", "mediaType": "video/mp4", "href": peerID(t, "media"), "height": 720, "width": 1280}}
	}
	if t.Bool(1, 2) {
		n["attachment"] = []any{map[string]any{"type": "Document", "mediaType": "image/png", "url": peerID(t, "media"), "name": nil, "blurhash": "UBL_:rOpGG", "width": 640, "height": 480}}
	}
	if t.Bool(1, 2) {
		tags := []any{map[string]any{"type": "Mention", "href": peerID(t, "users"), "name": "@someone@peer.example"}}
		if t.Bool(1, 2) {
			tags = append(tags, map[string]any{"type": "Hashtag", "href": "https://peer.example/tags/go", "name": "#go"})
		}
		if t.Bool(1, 3) {
			tags = append(tags, map[string]any{"id": peerID(t, "emojis"), "type": "Emoji", "name": ":blob:", "icon": map[string]any{"type": "Image", "url": peerID(t, "media")}})
		}
		n["tag"] = tags
	}
	if t.Bool(1, 2) && depth < 2 {
		page := map[string]any{"type": "CollectionPage", "next": n["id"].(string) + "/replies?page=true", "partOf": n["id"].(string) + "/replies", "items": []any{}}
		if t.Bool(1, 2) {
			page["items"] = []any{peerID(t, "notes"), peerNote(t, depth+2)}
		}
		n["replies"] = map[string]any{"id": n["id"].(string) + "/replies", "type": "Collection", "first": page}
	}
	if n["type"] == "Question" {
		n["oneOf"] = []any{map[string]any{"type": "Note", "name": "yes", "replies": map[string]any{"type": "Collection", "totalItems": t.Draw(100)}}, map[string]any{"type": "Note", "name": "no"}}
		n["closed"] = "2024-04-01T00:00:00Z"
	}
	return n
}

func peerActor(t *core.Tape) map[string]any {
	id := peerID(t, "users")
	a := map[string]any{
		"id": id, "type": []string{"Person", "Service", "Group", "Application"}[t.Draw(4)],
		"inbox": id + "/inbox", "outbox": id + "/outbox", "followers": id + "/followers", "following": id + "/following",
		"preferredUsername": "user" + fmt.Sprint(t.Draw(100)),
		"name":              peerText(t),
		"summary":           "<p>" + peerText(t) + "</p>",
		"url":               "https://peer.example/@user",
		"manuallyApprovesFollowers": false,
		"discoverable":              true,
		"publicKey": map[string]any{"id": id + "#main-key", "owner": id,
			"publicKeyPem": "-----BEGIN PUBLIC KEY-----\nMIIBIjANBgkqhkiG9w0BAQEFAAOCAQ8AMIIBCgKCAQEA" + fmt.Sprint(t.Draw(100000)) + "\n-----END PUBLIC KEY-----\n"},
	}
	if t.Bool(2, 3) {
		a["endpoints"] = map[string]any{"sharedInbox": "https://peer.example/inbox"}
	}
	if t.Bool(1, 2) {
		a["icon"] = map[string]any{"type": "Image", "mediaType": "image/jpeg", "url": peerID(t, "media")}
	}
	if t.Bool(1, 3) {
		a["attachment"] = []any{map[string]any{"type": "PropertyValue", "name": "Site", "value": "<a href=\"https://x.example\">x</a>"}}
	}
	if t.Bool(1, 3) {
		a["nameMap"] = peerLangMap(t)
	}
	return a
}

func peerCollection(t *core.Tape) map[string]any {
	id := peerID(t, "users") + "/outbox"
	typ := []string{"OrderedCollection", "Collection", "OrderedCollectionPage", "CollectionPage"}[t.Draw(4)]
	c := map[string]any{"id": id, "type": typ, "totalItems": []int{0, 3, 70000, 1 << 24}[t.Draw(4)]}
	items := []any{}
	for i, n := 0, t.Draw(4); i < n; i++ {
		if t.Bool(1, 2) {
			items = append(items, peerID(t, "notes"))
		} else {
			items = append(items, map[string]any{"id": peerID(t, "activities"), "type": "Create", "actor": peerID(t, "users"), "object": peerNote(t, 2)})
		}
	}
	key := "items"
	if typ[0] == 'O' {
		key = "orderedItems"
	}
	switch t.Draw(3) {
	case 0:
		c["first"] = id + "?page=true"
		c["last"] = id + "?min_id=0&page=true"
	case 1:
		c["first"] = map[string]any{"id": id + "?page=1", "type": typ[:len(typ)-0], "partOf": id, key: items, "next": id + "?page=2"}
	default:
		c[key] = items
	}
	if len(typ) > 17 || typ == "CollectionPage" {
		c["partOf"] = id
		c["next"] = id + "?page=2"
		c["prev"] = id + "?page=0"
		c[key] = items
	}
	return c
}

func peerValue(t *core.Tape, depth int) map[string]any {
	var v map[string]any
	switch t.Draw(6) {
	case 0, 1:
		v = peerNote(t, depth)
	case 2:
		v = peerActor(t)
	case 3:
		v = peerCollection(t)
	case 4:
		// an activity with an embedded object
		v = map[string]any{"id": peerID(t, "activities"), "type": []string{"Create", "Update", "Announce", "Like", "Follow", "Undo", "Delete"}[t.Draw(7)],
			"actor": peerID(t, "users"), "to": []any{"https://www.w3.org/ns/activitystreams#Public"}, "cc": []any{}, "published": "2024-03-05T10:00:00Z"}
		switch t.Draw(3) {
		case 0:
			v["object"] = peerNote(t, depth+1)
		case 1:
			v["object"] = peerID(t, "notes")
		default:
			v["object"] = map[string]any{"id": peerID(t, "notes"), "type": "Tombstone", "formerType": "Note", "deleted": "2024-03-06T00:00:00Z"}
		}
		if t.Bool(1, 3) {
			v["actor"] = peerActor(t)
		}
		if t.Bool(1, 4) {
			v["signature"] = map[string]any{"type": "RsaSignature2017", "creator": peerID(t, "users") + "#main-key", "signatureValue": "abc="}
		}
	default:
		// "type" as an array, id-less embedded place
		v = peerNote(t, depth)
		v["type"] = []any{v["type"], "as:Sensitive"}
		v["location"] = map[string]any{"type": "Place", "name": "somewhere", "latitude": 47.3, "longitude": 8.5, "radius": 10, "units": "km"}
	}
	v["@context"] = peerContext(t)
	return v
}
