package gen

import (
	"fmt"
	"math"
	"reflect"
	"sort"
	"strconv"
	"strings"
	"time"
	"unsafe"
)

// The walker below is the oracle for "leaves every byte of the value and of
// everything it references unchanged" (DESIGN.md §2.5): it visits pointers,
// interfaces, structs including unexported fields, strings, maps (sorted)
// and slices over their whole capacity, and feeds either a 64-bit hash or a
// path-addressed dump. Raw addresses never enter the output; pointer
// identity is expressed as "same as the k-th pointer visited".

type sink interface {
	leaf(w *walker, kind string, data string)
	// num is the allocation-free path for numeric leaves
	num(w *walker, kind string, a, b uint64)
}

type walker struct {
	s     sink
	path  []string
	paths bool
	seen  map[seenKey]int
	spare bool // include slice capacity beyond len
}

type seenKey struct {
	p unsafe.Pointer
	t reflect.Type
}

//go:norace
func (w *walker) push(s string) {
	if w.paths {
		w.path = append(w.path, s)
	}
}

//go:norace
func (w *walker) pop() {
	if w.paths {
		w.path = w.path[:len(w.path)-1]
	}
}

var tTimeT = reflect.TypeOf(time.Time{})

//go:norace
func (w *walker) walk(v reflect.Value) {
	if !v.IsValid() {
		w.s.leaf(w, "invalid", "")
		return
	}
	switch v.Kind() {
	case reflect.Interface:
		if v.IsNil() {
			w.s.leaf(w, "iface", "nil")
			return
		}
		e := v.Elem()
		w.s.leaf(w, "dyn", e.Type().String())
		w.walk(e)
	case reflect.Pointer:
		if v.IsNil() {
			w.s.leaf(w, "ptr", "nil")
			return
		}
		k := seenKey{v.UnsafePointer(), v.Type()}
		if idx, ok := w.seen[k]; ok {
			w.s.num(w, "ptr-seen", uint64(idx), 0)
			return
		}
		w.seen[k] = len(w.seen)
		w.push("*")
		w.walk(v.Elem())
		w.pop()
	case reflect.Struct:
		if v.Type() == tTimeT {
			w.walkTime(v)
			return
		}
		t := v.Type()
		for i, n := 0, t.NumField(); i < n; i++ {
			if w.paths {
				w.push("." + t.Field(i).Name)
			}
			w.walk(v.Field(i))
			w.pop()
		}
	case reflect.String:
		w.s.leaf(w, "str", v.String())
	case reflect.Slice:
		if v.IsNil() {
			w.s.leaf(w, "slice", "nil")
			return
		}
		n, c := v.Len(), v.Cap()
		w.s.num(w, "slice", uint64(n), uint64(c))
		full := v
		if w.spare && c > n {
			full = v.Slice3(0, c, c)
		} else {
			c = n
		}
		if v.Type().Elem().Kind() == reflect.Uint8 {
			b := full.Bytes()
			w.push("[0:len]")
			w.s.leaf(w, "bytes", string(b[:n]))
			w.pop()
			if c > n {
				w.push("[len:cap]")
				w.s.leaf(w, "bytes", string(b[n:c]))
				w.pop()
			}
			return
		}
		for i := 0; i < c; i++ {
			if w.paths {
				if i < n {
					w.push("[" + strconv.Itoa(i) + "]")
				} else {
					w.push("[spare" + strconv.Itoa(i) + "]")
				}
			}
			w.walk(full.Index(i))
			w.pop()
		}
	case reflect.Array:
		for i := 0; i < v.Len(); i++ {
			if w.paths {
				w.push("[" + strconv.Itoa(i) + "]")
			}
			w.walk(v.Index(i))
			w.pop()
		}
	case reflect.Map:
		if v.IsNil() {
			w.s.leaf(w, "map", "nil")
			return
		}
		keys := v.MapKeys()
		sort.Slice(keys, func(i, j int) bool { return fmt.Sprint(keys[i]) < fmt.Sprint(keys[j]) })
		w.s.leaf(w, "map", fmt.Sprintf("len=%d", len(keys)))
		for _, k := range keys {
			w.push(fmt.Sprintf("[%v]", k))
			w.walk(v.MapIndex(k))
			w.pop()
		}
	case reflect.Bool:
		b := uint64(0)
		if v.Bool() {
			b = 1
		}
		w.s.num(w, "bool", b, 0)
	case reflect.Int, reflect.Int8, reflect.Int16, reflect.Int32, reflect.Int64:
		w.s.num(w, "int", uint64(v.Int()), 0)
	case reflect.Uint, reflect.Uint8, reflect.Uint16, reflect.Uint32, reflect.Uint64, reflect.Uintptr:
		w.s.num(w, "uint", v.Uint(), 0)
	case reflect.Float32, reflect.Float64:
		w.s.num(w, "float", math.Float64bits(v.Float()), 0)
	case reflect.Complex64, reflect.Complex128:
		w.s.leaf(w, "complex", fmt.Sprint(v.Complex()))
	case reflect.Func, reflect.Chan, reflect.UnsafePointer:
		if v.IsNil() {
			w.s.leaf(w, v.Kind().String(), "nil")
		} else {
			w.s.leaf(w, v.Kind().String(), "set")
		}
	}
}

// walkTime hashes the raw representation of a time.Time (wall, ext) and the
// name of its location instead of the location pointer.
//
//go:norace
func (w *walker) walkTime(v reflect.Value) {
	wall := v.Field(0).Uint()
	ext := v.Field(1).Int()
	locName := "UTC(nil)"
	if lp := v.Field(2); !lp.IsNil() {
		loc := (*time.Location)(lp.UnsafePointer())
		locName = loc.String()
	}
	w.s.num(w, "time", wall, uint64(ext))
	w.s.leaf(w, "time-loc", locName)
}

// ---- hash sink

type hashSink struct{ h uint64 }

//go:norace
func (s *hashSink) add(b string) {
	h := s.h
	for i := 0; i < len(b); i++ {
		h ^= uint64(b[i])
		h *= 1099511628211
	}
	s.h = h
}

//go:norace
func (s *hashSink) num(w *walker, kind string, a, b uint64) {
	s.add(kind)
	h := s.h
	for i := 0; i < 8; i++ {
		h ^= (a >> (8 * uint(i))) & 0xff
		h *= 1099511628211
	}
	for i := 0; i < 8; i++ {
		h ^= (b >> (8 * uint(i))) & 0xff
		h *= 1099511628211
	}
	s.h = h
}

//go:norace
func (s *hashSink) leaf(w *walker, kind string, data string) {
	s.add(kind)
	s.add("\x00")
	s.add(data)
	s.add("\x01")
}

// ---- dump sink

type dumpSink struct{ lines []string }

//go:norace
func (s *dumpSink) num(w *walker, kind string, a, b uint64) {
	// (no fmt here: the dump also runs on task goroutines, where fmt's sync.Pool would add
	// happens-before edges between tasks that the program under test does not have)
	switch kind {
	case "slice":
		s.leaf(w, kind, "len="+strconv.FormatUint(a, 10)+" cap="+strconv.FormatUint(b, 10))
	case "int":
		s.leaf(w, kind, strconv.FormatInt(int64(a), 10))
	case "time":
		s.leaf(w, kind, "wall="+strconv.FormatUint(a, 10)+" ext="+strconv.FormatInt(int64(b), 10))
	case "float":
		s.leaf(w, kind, strconv.FormatFloat(math.Float64frombits(a), 'g', -1, 64))
	default:
		s.leaf(w, kind, strconv.FormatUint(a, 10))
	}
}

//go:norace
func (s *dumpSink) leaf(w *walker, kind string, data string) {
	s.lines = append(s.lines, strings.Join(w.path, "")+" "+kind+"="+strconv.Quote(data))
}

// Fingerprint returns the 64-bit hash of everything reachable from the given
// roots, including spare slice capacity.
//
//go:norace
func Fingerprint(roots ...any) uint64 {
	hs := &hashSink{h: 14695981039346656037}
	w := &walker{s: hs, seen: map[seenKey]int{}, spare: true}
	for _, r := range roots {
		w.walk(reflect.ValueOf(r))
		hs.add("\x02")
	}
	return hs.h
}

// DumpLines returns the path-addressed dump of a value. With spare == false
// slice capacity is ignored (structural dump for comparing results).
//
//go:norace
func DumpLines(root any, spare bool) []string {
	ds := &dumpSink{}
	w := &walker{s: ds, seen: map[seenKey]int{}, spare: spare, paths: true}
	w.walk(reflect.ValueOf(root))
	return ds.lines
}

// Dump returns the structural dump as one string.
func Dump(root any) string { return strings.Join(DumpLines(root, false), "\n") }

// Diff returns a short description of the first difference between two dumps.
func Diff(a, b []string) string {
	n := len(a)
	if len(b) < n {
		n = len(b)
	}
	for i := 0; i < n; i++ {
		if a[i] != b[i] {
			return fmt.Sprintf("%s  ->  %s", a[i], b[i])
		}
	}
	if len(a) != len(b) {
		if len(a) > len(b) {
			return fmt.Sprintf("%s  ->  (absent)", a[n])
		}
		return fmt.Sprintf("(absent)  ->  %s", b[n])
	}
	return ""
}

// PathClass reduces a dump line to its path with indices removed, used as the
// violation class of a write (so that the same write at another index of a
// list is the same class).
func PathClass(diff string) string {
	if strings.HasPrefix(diff, "(restored") {
		return "write-then-restore"
	}
	p := diff
	if i := strings.Index(p, " "); i >= 0 {
		p = p[:i]
	}
	var sb strings.Builder
	depth := 0
	for _, r := range p {
		switch r {
		case '[':
			depth++
			sb.WriteString("[")
		case ']':
			depth--
			sb.WriteString("]")
		default:
			if depth == 0 {
				sb.WriteRune(r)
			}
		}
	}
	out := sb.String()
	// the last field on the path names what was written; the way to it does not matter
	if i := strings.LastIndex(out, "."); i >= 0 {
		out = out[i:]
	}
	return out
}

// ByteRanges returns the address ranges [lo, hi) of the backing arrays (whole
// capacity) of every byte slice reachable from the roots. Addresses are only
// compared inside the process, never logged.
func ByteRanges(roots ...any) [][2]uintptr {
	var out [][2]uintptr
	seen := map[seenKey]bool{}
	var walk func(v reflect.Value)
	walk = func(v reflect.Value) {
		if !v.IsValid() {
			return
		}
		switch v.Kind() {
		case reflect.Interface:
			if !v.IsNil() {
				walk(v.Elem())
			}
		case reflect.Pointer:
			if v.IsNil() {
				return
			}
			k := seenKey{v.UnsafePointer(), v.Type()}
			if seen[k] {
				return
			}
			seen[k] = true
			walk(v.Elem())
		case reflect.Struct:
			if v.Type() == tTimeT {
				return
			}
			for i, n := 0, v.NumField(); i < n; i++ {
				walk(v.Field(i))
			}
		case reflect.Slice:
			if v.IsNil() || v.Cap() == 0 {
				return
			}
			if v.Type().Elem().Kind() == reflect.Uint8 {
				lo := uintptr(v.UnsafePointer())
				out = append(out, [2]uintptr{lo, lo + uintptr(v.Cap())})
				return
			}
			full := v.Slice3(0, v.Cap(), v.Cap())
			for i := 0; i < full.Len(); i++ {
				walk(full.Index(i))
			}
		case reflect.Array:
			for i := 0; i < v.Len(); i++ {
				walk(v.Index(i))
			}
		}
	}
	for _, r := range roots {
		walk(reflect.ValueOf(r))
	}
	sort.Slice(out, func(i, j int) bool { return out[i][0] < out[j][0] })
	return out
}
