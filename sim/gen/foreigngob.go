package gen

import (
	"bytes"
	"encoding/gob"

	"verif.local/sim/core"
)

// ForeignGob writes a well-formed gob stream of a schema the library does not
// write today: what a store still holds from an older version of the
// application (the library's own IRIs.GobDecode keeps a fallback for such a
// blob), or what another program put under the same key. The property's
// quantifier names "arbitrary gob streams"; byte-level damage of the library's
// own streams practically never yields a stream of another *type* that
// encoding/gob accepts, so this writer supplies them: plain Go values of the
// shapes gob users store – strings, byte strings, lists and maps of them,
// numbers, a small struct.
type foreignRecord struct {
	ID   string
	Type string
	Name map[string]string
	Tags []string
	N    int64
}

var foreignTexts = []string{"https://example.com/objects/1", "en:hello", "fr:bonjour", "nocolon", "", "-", ":", "en:", ":x", "a:b:c", "https://example.com/~user/items/2?page=1", "Note", "\xff\xfe", "0", "null"}

// ForeignGobShapes is the number of shapes (warm-up encodes each once, in order).
const ForeignGobShapes = 14

// ForeignGobShape writes shape k with contents drawn from t.
func ForeignGobShape(t *core.Tape, k int) []byte {
	txt := func() string { return foreignTexts[t.Draw(len(foreignTexts))] }
	n := 1 + t.Draw(3)
	strs := make([]string, n)
	bss := make([][]byte, n)
	for i := range strs {
		strs[i] = txt()
		bss[i] = []byte(txt())
	}
	var v any
	switch k {
	case 0:
		v = strs
	case 1:
		v = bss
	case 2:
		v = map[string]string{[]string{"id", "type", "name"}[t.Draw(3)]: txt()} // (one entry: gob writes maps in random order)
	case 3:
		v = map[string][]byte{"id": []byte(txt()), "type": []byte(txt()), "name": []byte(txt()), "to": []byte(txt())}
	case 4:
		v = txt()
	case 5:
		v = []byte(txt())
	case 6:
		v = int64(t.Draw(1 << 20))
	case 7:
		v = float64(t.Draw(1000)) / 7
	case 8:
		v = t.Bool(1, 2)
	case 9:
		v = foreignRecord{ID: txt(), Type: txt(), Name: map[string]string{"en": txt()}, Tags: strs, N: int64(t.Draw(100))}
	case 10:
		v = []map[string][]byte{{"id": []byte(txt())}, {"type": []byte(txt())}}
	case 11:
		v = [][]string{strs, {txt()}}
	case 12:
		v = map[string][][]byte{"name": bss}
	default:
		v = []int{t.Draw(10), t.Draw(1000), -1}
	}
	var b bytes.Buffer
	if err := gob.NewEncoder(&b).Encode(v); err != nil {
		return nil
	}
	return b.Bytes()
}

// ForeignGob draws a shape and writes it.
func ForeignGob(t *core.Tape) []byte { return ForeignGobShape(t, t.Draw(ForeignGobShapes)) }
