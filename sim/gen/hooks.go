package gen

import (
	"github.com/valyala/fastjson"
	"reflect"

	ap "github.com/go-ap/activitypub"

	"verif.local/sim/core"
)

// WithHooks is the "extension hooks" knob: in a quarter of the runs the three
// package-level hook variables are replaced, before the run starts, by
// pass-through wrappers (and JSONItemUnmarshal by a loader that treats an
// unknown type as a plain object). The returned function restores the
// defaults; it must run before the next run starts, so that no run depends
// on what an earlier run in the same process did.
func WithHooks(t *core.Tape) (restore func(), on bool) {
	if !t.Bool(1, 4) {
		return func() {}, false
	}
	oldTyper, oldUnm, oldNE := ap.ItemTyperFunc, ap.JSONItemUnmarshal, ap.IsNotEmpty
	oldLang := ap.DefaultLang
	if t.Bool(1, 2) {
		// the configured default language (used by the convenience constructors) is an application's
		// to set; nothing else may depend on it
		ap.DefaultLang = []ap.LangRef{"en", "fr", ""}[t.Draw(3)]
	}
	ap.ItemTyperFunc = func(typ ap.ActivityVocabularyType) (ap.Item, error) { return ap.GetItemByType(typ) }
	ap.IsNotEmpty = func(it ap.Item) bool { return ap.NotEmpty(it) }
	ap.JSONItemUnmarshal = func(typ ap.ActivityVocabularyType, val *fastjson.Value, it ap.Item) error {
		return ap.OnObject(it, func(ob *ap.Object) error { return ap.JSONLoadObject(val, ob) })
	}
	// the application has extended (and trimmed again) some of the exported lists of the vocabulary:
	// same contents, but with spare capacity behind them, as after any append
	type saved struct {
		p   reflect.Value
		old reflect.Value
	}
	var lists []saved
	if t.Bool(1, 2) {
		g := ap.VerifGlobals()
		for _, name := range core.SortedKeys(g) {
			pv := reflect.ValueOf(g[name])
			if pv.Kind() != reflect.Pointer || pv.Elem().Kind() != reflect.Slice || pv.Elem().Len() == 0 || !pv.Elem().CanSet() {
				continue
			}
			if k := pv.Elem().Type().Elem().Kind(); k != reflect.String {
				continue
			}
			old := reflect.ValueOf(pv.Elem().Interface())
			grown := reflect.Append(pv.Elem(), reflect.Zero(pv.Elem().Type().Elem()))
			pv.Elem().Set(grown.Slice(0, old.Len()))
			lists = append(lists, saved{pv, old})
		}
	}
	return func() {
		ap.ItemTyperFunc, ap.JSONItemUnmarshal, ap.IsNotEmpty, ap.DefaultLang = oldTyper, oldUnm, oldNE, oldLang
		for _, l := range lists {
			l.p.Elem().Set(l.old)
		}
	}, true
}
