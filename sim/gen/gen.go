// Package gen is the simulator's reflect-driven generator of vocabulary
// values (DESIGN.md §2.4). It walks the library's own struct types, so a field
// added to a struct is generated without touching the harness. Every choice
// is drawn from the run's tape; 0 is always the simplest choice so that tape
// shrinking shrinks values.
package gen

import (
	"fmt"
	"reflect"
	"time"

	ap "github.com/go-ap/activitypub"

	"verif.local/sim/core"
)

// Knobs are the per-run generator settings (swarm style).
type Knobs struct {
	MaxDepth   int  // nesting depth of embedded items (≤ 4)
	FieldP     int  // a field is set with probability FieldP/16
	SpareCap   bool // slices are built with spare capacity holding sentinel members
	Links      bool // Link values may appear in item positions
	IDless     bool // embedded single objects may lack id (and type)
	ValueForms bool // struct values (not pointers) may appear in item positions
	MaxList    int  // members per generated list
	Budget     int  // max number of structs per generated value
	PlainText  bool // only unremarkable text (no escapes / control characters)
	Shared     bool // the same pointer may be embedded at two places
	// SmallNumbers keeps counts and sizes small (used by the process warm-up,
	// which must not depend on how the library treats large numbers)
	SmallNumbers bool
	// NestedLists: a member of a list may itself be a (short) list – the gob codec carries such a
	// value faithfully, and JSON documents with arrays inside arrays exist
	NestedLists bool
	// Paragraphs: 1 text in 6 is a paragraph of 130..700 bytes (what a post's content or an actor's
	// summary usually is), so that whatever a codec, a helper or a Format method does only above some
	// length is reached; set by the checks that want it (never by DrawKnobs: other tapes stay as they are)
	Paragraphs bool
}

// DrawKnobs draws a knob set from the tape.
func DrawKnobs(t *core.Tape) Knobs {
	return Knobs{
		MaxDepth:    1 + t.Draw(3),
		FieldP:      2 + t.Draw(7),
		SpareCap:    t.Bool(1, 2),
		Links:       t.Bool(1, 2),
		IDless:      t.Bool(1, 3),
		ValueForms:  t.Bool(1, 2),
		MaxList:     1 + t.Draw(3),
		Budget:      4 + t.Draw(28),
		PlainText:   t.Bool(1, 4),
		Shared:      t.Bool(1, 4),
		NestedLists: t.Bool(1, 4),
	}
}

// G generates values.
type G struct {
	T      *core.Tape
	K      Knobs
	nextID int
	used   int
	shared []ap.Item
	// listIRIs are the IRIs already placed in some list of this value: a later
	// list may mention the same addressee again (the same actor in to and cc)
	listIRIs []ap.IRI
	// Stats
	Structs int
}

func New(t *core.Tape, k Knobs) *G { return &G{T: t, K: k} }

// Kind names a Go struct type of the vocabulary together with the type names
// the registry maps onto it (type-consistent domain, DESIGN.md §2.4).
type Kind struct {
	Name  string
	Type  reflect.Type
	Names []ap.ActivityVocabularyType
}

var Kinds = []Kind{
	{"Object", reflect.TypeOf(ap.Object{}), []ap.ActivityVocabularyType{ap.NoteType, ap.ObjectType, ap.ArticleType, ap.AudioType, ap.DocumentType, ap.EventType, ap.ImageType, ap.PageType, ap.VideoType}},
	{"Actor", reflect.TypeOf(ap.Actor{}), []ap.ActivityVocabularyType{ap.PersonType, ap.ActorType, ap.ApplicationType, ap.GroupType, ap.OrganizationType, ap.ServiceType}},
	{"Activity", reflect.TypeOf(ap.Activity{}), []ap.ActivityVocabularyType{ap.CreateType, ap.ActivityType, ap.AcceptType, ap.AddType, ap.AnnounceType, ap.BlockType, ap.DeleteType, ap.DislikeType, ap.FlagType, ap.FollowType, ap.IgnoreType, ap.InviteType, ap.JoinType, ap.LeaveType, ap.LikeType, ap.ListenType, ap.MoveType, ap.OfferType, ap.RejectType, ap.ReadType, ap.RemoveType, ap.TentativeRejectType, ap.TentativeAcceptType, ap.UndoType, ap.UpdateType, ap.ViewType}},
	{"IntransitiveActivity", reflect.TypeOf(ap.IntransitiveActivity{}), []ap.ActivityVocabularyType{ap.ArriveType, ap.IntransitiveActivityType, ap.TravelType}},
	{"Question", reflect.TypeOf(ap.Question{}), []ap.ActivityVocabularyType{ap.QuestionType}},
	{"Collection", reflect.TypeOf(ap.Collection{}), []ap.ActivityVocabularyType{ap.CollectionType}},
	{"OrderedCollection", reflect.TypeOf(ap.OrderedCollection{}), []ap.ActivityVocabularyType{ap.OrderedCollectionType}},
	{"CollectionPage", reflect.TypeOf(ap.CollectionPage{}), []ap.ActivityVocabularyType{ap.CollectionPageType}},
	{"OrderedCollectionPage", reflect.TypeOf(ap.OrderedCollectionPage{}), []ap.ActivityVocabularyType{ap.OrderedCollectionPageType}},
	{"Place", reflect.TypeOf(ap.Place{}), []ap.ActivityVocabularyType{ap.PlaceType}},
	{"Profile", reflect.TypeOf(ap.Profile{}), []ap.ActivityVocabularyType{ap.ProfileType}},
	{"Relationship", reflect.TypeOf(ap.Relationship{}), []ap.ActivityVocabularyType{ap.RelationshipType}},
	{"Tombstone", reflect.TypeOf(ap.Tombstone{}), []ap.ActivityVocabularyType{ap.TombstoneType}},
}

var LinkKind = Kind{"Link", reflect.TypeOf(ap.Link{}), []ap.ActivityVocabularyType{ap.LinkType, ap.MentionType}}

func KindByName(n string) *Kind {
	for i := range Kinds {
		if Kinds[i].Name == n {
			return &Kinds[i]
		}
	}
	if n == "Link" {
		return &LinkKind
	}
	return nil
}

var (
	tItem     = reflect.TypeOf((*ap.Item)(nil)).Elem()
	tIRI      = reflect.TypeOf(ap.IRI(""))
	tItemCol  = reflect.TypeOf(ap.ItemCollection{})
	tNLV      = reflect.TypeOf(ap.NaturalLanguageValues{})
	tTime     = reflect.TypeOf(time.Time{})
	tDuration = reflect.TypeOf(time.Duration(0))
	tMime     = reflect.TypeOf(ap.MimeType(""))
	tVocType  = reflect.TypeOf(ap.ActivityVocabularyType(""))
	tLangRef  = reflect.TypeOf(ap.LangRef(""))
	tSource   = reflect.TypeOf(ap.Source{})
	tPubKey   = reflect.TypeOf(ap.PublicKey{})
	tEndp     = reflect.TypeOf((*ap.Endpoints)(nil))
)

var hosts = []string{"example.com", "social.example.org", "EXAMPLE.com:8443", "xn--bcher-kva.example"}

// IRI returns an id (an absolute URL, 1 in 24 an opaque IRI) that no other call of this generator returned.
func (g *G) IRI() ap.IRI {
	g.nextID++
	if g.T.Bool(1, 24) {
		// ids that are not URLs name things in the fediverse too (no host, no path: only their text)
		n := fmt.Sprint(g.nextID)
		return ap.IRI([]string{"urn:uuid:6ba7b810-9dad-11d1-80b4-00c04fd4" + n, "did:key:z6MkhaXgBZDvotDkL5257faiztiGiC2QtKLGpbn" + n, "acct:user" + n + "@social.example.org",
			"tag:social.example.org,2024:objectId=" + n + ":objectType=Status"}[g.T.Draw(4)])
	}
	h := hosts[g.T.Draw(len(hosts))]
	scheme := "https"
	if g.T.Bool(1, 8) {
		scheme = "http"
	}
	path := []string{"", "/objects", "/~user/items", "/a/b/c"}[g.T.Draw(4)]
	s := fmt.Sprintf("%s://%s%s/%d", scheme, h, path, g.nextID)
	if g.T.Bool(1, 8) {
		s += "?page=" + fmt.Sprint(g.T.Draw(3))
	}
	return ap.IRI(s)
}

var textPool = []string{
	"a", "hello", "Hello, World!", "<p>some <b>html</b></p>", "two\nlines", "tab\there",
	`back\slash`, `looks\nlike escape`, `quote"inside`, `{"json":"looking","n":[1,2]}`, "é ü ß", "日本語テキスト",
	"astral \U0001F600 \U0001D11E", "ctl \x01\x1f end", `trailing backslash\`, "\u2028 line sep", " ", "-", "null", "[]",
	`\u0041 literal`, "<script>alert(1)</script>", "&amp;",
	// texts that are not valid UTF-8 (Latin-1 from an old database, a text cut inside a character,
	// a NUL): a []byte-typed text may hold them, and every codec and helper must cope
	"latin1 caf\xe9", "cut \xe2\x82", "\xff\xfe", "nul \x00 byte",
}

// Text returns a fresh byte slice (never shared with the pool).
func (g *G) Text() []byte {
	n := len(textPool)
	if g.K.PlainText {
		n = 3
	}
	s := textPool[g.T.Draw(n)]
	if g.K.Paragraphs && g.T.Bool(1, 6) {
		want := 130 + g.T.Draw(571)
		b := make([]byte, 0, want+40)
		for len(b) < want {
			b = append(b, textPool[g.T.Draw(n)]...)
			b = append(b, ' ')
		}
		return b[:len(b):len(b)]
	}
	if g.K.SpareCap && g.T.Bool(1, 2) {
		// a text whose slice has spare capacity holding sentinel bytes: an encoder that appends to
		// the text it was given (a closing quote, a terminator) writes there
		b := make([]byte, 0, len(s)+4)
		b = append(b, s...)
		copy(b[len(s):cap(b)], "ZZZZ")
		return b
	}
	return append([]byte{}, s...)
}

var langTags = []ap.LangRef{ap.NilLangRef, "en", "fr", "de", "ro", "es", "it", "pt-BR", "nl", "ja", "zh-Hans", "ar", "ru", "pl", "sv", "fi", "el"}

// NLV returns 0..3 (1 time in 24: 9..16) entries with pairwise distinct tags.
func (g *G) NLV(min int) ap.NaturalLanguageValues {
	n := min + g.T.Draw(4-min)
	if g.T.Bool(1, 24) {
		// a text translated into many languages (a project's description, a release note): 9..16 entries
		n = 9 + g.T.Draw(8)
	}
	if n == 0 {
		return nil
	}
	start := g.T.Draw(len(langTags))
	var out ap.NaturalLanguageValues
	if g.K.SpareCap {
		out = make(ap.NaturalLanguageValues, 0, n+2)
	} else {
		out = make(ap.NaturalLanguageValues, 0, n)
	}
	for i := 0; i < n; i++ {
		out = append(out, ap.LangRefValue{Ref: langTags[(start+i)%len(langTags)], Value: g.Text()})
	}
	if g.K.SpareCap {
		full := out[:cap(out)]
		for i := n; i < len(full); i++ {
			full[i] = ap.LangRefValue{Ref: "zz", Value: ap.Content("SPARE-SENTINEL")}
		}
	}
	return out
}

var zones = []*time.Location{time.UTC, time.FixedZone("", 2*3600), time.FixedZone("EST", -5*3600), time.FixedZone("odd", 5*3600+45*60)}

// Time returns an instant without monotonic reading.
func (g *G) Time() time.Time {
	sec := int64(946684800) + int64(g.T.Draw(1<<20))*1009
	nsec := int64(0)
	if g.T.Bool(1, 2) {
		nsec = int64(g.T.Draw(1000)) * 1000003 % 1000000000
	}
	return time.Unix(sec, nsec).In(zones[g.T.Draw(len(zones))])
}

func (g *G) pickKind() *Kind {
	// Object, Actor and Activity are the common shapes; the rest share the tail
	x := g.T.Draw(16)
	switch {
	case x < 4:
		return &Kinds[0]
	case x < 6:
		return &Kinds[1]
	case x < 8:
		return &Kinds[2]
	}
	return &Kinds[g.T.Draw(len(Kinds))]
}

// Item generates an item for a property position.
// allowNil: the position may stay empty; allowList: an ItemCollection may be placed.
func (g *G) Item(depth int, allowNil, allowList bool) ap.Item {
	if depth >= g.K.MaxDepth || g.used >= g.K.Budget {
		if allowNil && g.T.Bool(1, 4) {
			return nil
		}
		return g.IRI()
	}
	switch g.T.Draw(8) {
	case 0:
		if allowNil {
			return nil
		}
		return g.IRI()
	case 1, 2:
		return g.IRI()
	case 3:
		if g.K.Links {
			return g.Link(depth + 1)
		}
		return g.IRI()
	case 4:
		if allowList {
			return g.List(depth+1, 1)
		}
		return g.StructItem(g.pickKind(), depth+1, false)
	case 5:
		if g.K.Shared && len(g.shared) > 0 {
			return g.shared[g.T.Draw(len(g.shared))]
		}
		return g.StructItem(g.pickKind(), depth+1, false)
	default:
		return g.StructItem(g.pickKind(), depth+1, g.K.IDless && g.T.Bool(1, 3))
	}
}

// List generates a list whose members that carry an id carry pairwise distinct ones.
func (g *G) List(depth int, min int) ap.ItemCollection {
	n := min + g.T.Draw(g.K.MaxList+1-min)
	if n <= 0 {
		return nil
	}
	capn := n
	if g.K.SpareCap {
		capn = n + 1 + g.T.Draw(3)
	}
	out := make(ap.ItemCollection, 0, capn)
	for i := 0; i < n; i++ {
		var it ap.Item
		if len(g.listIRIs) > 0 && g.T.Bool(1, 4) {
			// an addressee another list of this value already names (ids inside one list stay distinct)
			cand := g.listIRIs[g.T.Draw(len(g.listIRIs))]
			dup := false
			for _, x := range out {
				if x.GetLink() == cand {
					dup = true
				}
			}
			if !dup {
				out = append(out, cand)
				continue
			}
		}
		if g.K.NestedLists && g.T.Bool(1, 6) {
			inner := ap.ItemCollection{g.IRI()}
			if g.T.Bool(1, 2) {
				inner = append(inner, g.IRI())
			}
			out = append(out, inner)
			continue
		}
		if depth >= g.K.MaxDepth || g.used >= g.K.Budget || g.T.Bool(1, 2) {
			iri := g.IRI()
			g.listIRIs = append(g.listIRIs, iri)
			it = iri
		} else {
			// (with the IDless knob a quarter of the embedded members lack an id: tags, attachments,
			// poll options are written that way by every peer)
			it = g.StructItem(g.pickKind(), depth+1, g.K.IDless && g.T.Bool(1, 4))
			if id := it.GetLink(); len(id) > 0 && g.T.Bool(1, 2) {
				g.listIRIs = append(g.listIRIs, id)
			}
		}
		out = append(out, it)
	}
	if g.K.SpareCap {
		full := out[:cap(out)]
		for i := n; i < len(full); i++ {
			full[i] = ap.IRI("https://spare.example/SENTINEL")
		}
	}
	return out
}

// Link generates a *Link (or a Link value).
func (g *G) Link(depth int) ap.Item {
	g.used++
	l := &ap.Link{}
	g.fill(reflect.ValueOf(l).Elem(), &LinkKind, depth, false)
	if len(l.Href) == 0 {
		l.Href = g.IRI()
	}
	if g.K.ValueForms && g.T.Bool(1, 4) {
		return *l
	}
	return l
}

// StructItem generates a value of the given kind as an Item (pointer form,
// or value form when the knob allows).
func (g *G) StructItem(k *Kind, depth int, idless bool) ap.Item {
	p := g.Struct(k, depth, idless)
	var it ap.Item
	if g.K.ValueForms && g.T.Bool(1, 4) {
		it = p.Elem().Interface().(ap.Item)
	} else {
		it = p.Interface().(ap.Item)
	}
	if g.K.Shared && !idless && len(g.shared) < 4 {
		g.shared = append(g.shared, it)
	}
	return it
}

// Struct generates *T for the kind's struct type.
func (g *G) Struct(k *Kind, depth int, idless bool) reflect.Value {
	g.used++
	g.Structs++
	p := reflect.New(k.Type)
	g.fill(p.Elem(), k, depth, idless)
	return p
}

func (g *G) fill(v reflect.Value, k *Kind, depth int, idless bool) {
	t := v.Type()
	for i := 0; i < t.NumField(); i++ {
		sf := t.Field(i)
		f := v.Field(i)
		if !f.CanSet() {
			continue
		}
		switch sf.Name {
		case "ID":
			if !idless {
				f.Set(reflect.ValueOf(g.IRI()))
			}
			continue
		case "Type":
			if !idless {
				f.Set(reflect.ValueOf(k.Names[g.T.Draw(len(k.Names))]))
			}
			continue
		}
		if !g.T.Bool(g.K.FieldP, 16) {
			continue
		}
		g.setField(f, sf, depth)
	}
}

func (g *G) setField(f reflect.Value, sf reflect.StructField, depth int) {
	ft := f.Type()
	switch {
	case ft == tItemCol:
		f.Set(reflect.ValueOf(g.List(depth, 1)))
	case ft.Kind() == reflect.Interface && tIRI.Implements(ft):
		list := true
		switch sf.Name {
		case "Current", "First", "Last", "Next", "Prev", "PartOf", "Inbox", "Outbox", "Following", "Followers", "Liked", "Likes", "Shares", "Replies":
			list = false
		}
		it := g.Item(depth, true, list)
		if it != nil {
			f.Set(reflect.ValueOf(it))
		}
	case ft == tIRI:
		f.Set(reflect.ValueOf(g.IRI()))
	case ft == tNLV:
		f.Set(reflect.ValueOf(g.NLV(1)))
	case ft == tTime:
		f.Set(reflect.ValueOf(g.Time()))
	case ft == tDuration:
		d := time.Duration(1+g.T.Draw(100000)) * time.Second
		if g.T.Bool(1, 8) {
			d = -d
		}
		f.Set(reflect.ValueOf(d))
	case ft == tMime:
		f.Set(reflect.ValueOf(ap.MimeType([]string{"text/html", "text/plain", "image/png", "application/ld+json; profile=\"https://www.w3.org/ns/activitystreams\""}[g.T.Draw(4)])))
	case ft == tVocType:
		// e.g. Tombstone.FormerType
		f.Set(reflect.ValueOf([]ap.ActivityVocabularyType{ap.NoteType, ap.PersonType, ap.ArticleType, ap.ImageType}[g.T.Draw(4)]))
	case ft == tLangRef:
		f.Set(reflect.ValueOf(langTags[1+g.T.Draw(len(langTags)-1)]))
	case ft == tSource:
		s := ap.Source{}
		if g.T.Bool(3, 4) {
			s.Content = g.NLV(1)
		}
		if g.T.Bool(1, 2) || len(s.Content) == 0 {
			s.MediaType = "text/markdown"
		}
		f.Set(reflect.ValueOf(s))
	case ft == tPubKey:
		pk := ap.PublicKey{ID: g.IRI(), Owner: g.IRI(), PublicKeyPem: "-----BEGIN PUBLIC KEY-----\nMIIBIjANBgkq" + fmt.Sprint(g.T.Draw(1000)) + "\n-----END PUBLIC KEY-----"}
		f.Set(reflect.ValueOf(pk))
	case ft == tEndp:
		e := &ap.Endpoints{}
		if g.T.Bool(1, 2) {
			e.SharedInbox = g.IRI()
		}
		if g.T.Bool(1, 2) {
			e.OauthTokenEndpoint = g.IRI()
		}
		if g.T.Bool(1, 4) {
			e.UploadMedia = g.IRI()
		}
		f.Set(reflect.ValueOf(e))
	case ft.Kind() == reflect.Uint || ft.Kind() == reflect.Uint64:
		// counts and sizes: mostly small, sometimes large enough that one damaged high byte of
		// their encoding turns them into millions
		x := g.T.Draw(4)
		if g.K.SmallNumbers {
			x = 3
		}
		switch x {
		case 0:
			f.SetUint(uint64(65536 + g.T.Draw(1<<20)))
		case 1:
			f.SetUint(uint64(1<<24 + g.T.Draw(1<<24)))
		default:
			f.SetUint(uint64(1 + g.T.Draw(1000)))
		}
	case ft.Kind() == reflect.Int64 || ft.Kind() == reflect.Int:
		x := int64(1 + g.T.Draw(100000))
		if g.T.Bool(1, 8) {
			x = -x
		}
		f.SetInt(x)
	case ft.Kind() == reflect.Float64:
		x := float64(1+g.T.Draw(180000)) / 1000
		if g.T.Bool(1, 8) {
			x = -x
		}
		f.SetFloat(x)
	case ft.Kind() == reflect.String:
		f.SetString([]string{"m", "km", "miles", "feet"}[g.T.Draw(4)])
	case ft.Kind() == reflect.Bool:
		f.SetBool(true)
	default:
		// a field type this generator does not know (added by a later
		// change): leave it at its zero value
	}
}

// Top generates a top-level value for C12 / C04: any vocabulary struct in
// pointer form (value form with the knob), or a Link, or a list.
func (g *G) Top() ap.Item {
	switch g.T.Draw(10) {
	case 0:
		if g.K.Links {
			return g.Link(0)
		}
	case 1:
		return g.List(0, 1)
	case 2:
		if g.T.Bool(1, 2) {
			// an IRI list (with spare capacity under the knob)
			n := 1 + g.T.Draw(3)
			capn := n
			if g.K.SpareCap {
				capn = n + 2
			}
			l := make(ap.IRIs, 0, capn)
			for i := 0; i < n; i++ {
				l = append(l, g.IRI())
			}
			if g.K.SpareCap {
				full := l[:cap(l)]
				for i := n; i < len(full); i++ {
					full[i] = "https://spare.example/SENTINEL"
				}
			}
			return l
		}
	}
	return g.StructItem(g.pickKind(), 0, false)
}

// Any generates a value of an arbitrary exported type of the library by
// reflection (used by C04's writer for the non-vocabulary-struct decode entry
// points: IRI, IRIs, ItemCollection, NaturalLanguageValues, LangRefValue,
// Source, PublicKey, …). Unknown shapes fall back to their zero value.
func (g *G) Any(t reflect.Type, depth int) reflect.Value {
	for i := range Kinds {
		if Kinds[i].Type == t {
			return g.Struct(&Kinds[i], depth, false).Elem()
		}
	}
	if t == LinkKind.Type {
		l := &ap.Link{}
		g.fill(reflect.ValueOf(l).Elem(), &LinkKind, depth, false)
		return reflect.ValueOf(l).Elem()
	}
	v := reflect.New(t).Elem()
	g.anyInto(v, depth)
	return v
}

func (g *G) anyInto(v reflect.Value, depth int) {
	t := v.Type()
	switch {
	case t == tIRI:
		v.Set(reflect.ValueOf(g.IRI()))
		return
	case t == tItemCol:
		v.Set(reflect.ValueOf(g.List(depth, 0)))
		return
	case t == tNLV:
		v.Set(reflect.ValueOf(g.NLV(0)))
		return
	case t == tTime:
		v.Set(reflect.ValueOf(g.Time()))
		return
	case t.Kind() == reflect.Interface && tIRI.Implements(t):
		if it := g.Item(depth, true, true); it != nil {
			v.Set(reflect.ValueOf(it))
		}
		return
	case t == tMime || t == tVocType || t == tLangRef || t == tSource || t == tPubKey || t == tEndp || t == tDuration:
		g.setField(v, reflect.StructField{Name: ""}, depth)
		return
	}
	switch t.Kind() {
	case reflect.String:
		v.SetString(string(g.Text()))
	case reflect.Slice:
		if t.Elem().Kind() == reflect.Uint8 {
			v.SetBytes(g.Text())
			return
		}
		n := g.T.Draw(4)
		s := reflect.MakeSlice(t, n, n)
		for i := 0; i < n; i++ {
			g.anyInto(s.Index(i), depth+1)
		}
		v.Set(s)
	case reflect.Struct:
		for i := 0; i < t.NumField(); i++ {
			if f := v.Field(i); f.CanSet() && g.T.Bool(3, 4) {
				g.anyInto(f, depth+1)
			}
		}
	case reflect.Pointer:
		p := reflect.New(t.Elem())
		g.anyInto(p.Elem(), depth+1)
		v.Set(p)
	case reflect.Bool:
		v.SetBool(g.T.Bool(1, 2))
	case reflect.Int, reflect.Int64, reflect.Int32:
		v.SetInt(int64(g.T.Draw(1000)) - 100)
	case reflect.Uint, reflect.Uint64, reflect.Uint32:
		v.SetUint(uint64(g.T.Draw(1000)))
	case reflect.Float64, reflect.Float32:
		v.SetFloat(float64(g.T.Draw(100000))/100 - 100)
	}
}
