package gobcanon

import (
	"bytes"
	"encoding/gob"
	"fmt"
	"math/rand"
	"testing"
)

func enc(v any) []byte {
	var b bytes.Buffer
	if err := gob.NewEncoder(&b).Encode(v); err != nil {
		panic(err)
	}
	return b.Bytes()
}

func gen(r *rand.Rand, depth int) map[string][]byte {
	m := map[string][]byte{}
	n := 1 + r.Intn(8)
	for i := 0; i < n; i++ {
		k := fmt.Sprintf("key%d", r.Intn(40))
		switch {
		case depth < 3 && r.Intn(3) == 0:
			m[k] = enc(gen(r, depth+1))
		case depth < 3 && r.Intn(4) == 0:
			var l [][]byte
			for j := 0; j < 1+r.Intn(3); j++ {
				l = append(l, enc(gen(r, depth+1)))
			}
			m[k] = enc(l)
		default:
			b := make([]byte, r.Intn(300))
			r.Read(b)
			m[k] = b
		}
	}
	return m
}

// The same value encoded many times (different map orders) must canonicalise
// to one byte string that still decodes to the value.
func TestCanonStable(t *testing.T) {
	r := rand.New(rand.NewSource(1))
	for i := 0; i < 300; i++ {
		m := gen(r, 0)
		var first []byte
		for j := 0; j < 12; j++ {
			c := Canon(enc(m))
			if first == nil {
				first = c
				var back map[string][]byte
				if err := gob.NewDecoder(bytes.NewReader(c)).Decode(&back); err != nil || len(back) != len(m) {
					t.Fatalf("canonical bytes do not decode: %v", err)
				}
			} else if !bytes.Equal(first, c) {
				t.Fatalf("case %d: two encodings of one value canonicalise differently", i)
			}
		}
	}
}
