// Package gobcanon makes the gob bytes the library writes reproducible.
// encoding/gob writes a map in the runtime's randomised iteration order, so
// the same value encodes to different byte strings from run to run – a source
// of nondeterminism the simulator cannot seed from outside. Canon rewrites a
// gob stream holding a map[string][]byte (or a [][]byte whose elements are
// such streams) with the entries in sorted key order, recursively. Only the
// order of entries changes; lengths and every other byte stay the same, and
// the result decodes to the same value (checked on every call).
package gobcanon

import (
	"bytes"
	"encoding/gob"
	"reflect"
	"sort"
)

type reader struct {
	b   []byte
	pos int
	bad bool
}

func (r *reader) uvarint() uint64 {
	if r.pos >= len(r.b) {
		r.bad = true
		return 0
	}
	c := r.b[r.pos]
	r.pos++
	if c < 128 {
		return uint64(c)
	}
	n := int(-int8(c))
	if n < 1 || n > 8 || r.pos+n > len(r.b) {
		r.bad = true
		return 0
	}
	var v uint64
	for i := 0; i < n; i++ {
		v = v<<8 | uint64(r.b[r.pos+i])
	}
	r.pos += n
	return v
}

func (r *reader) varint() int64 {
	u := r.uvarint()
	if u&1 != 0 {
		return ^int64(u >> 1)
	}
	return int64(u >> 1)
}

func (r *reader) bytesN() []byte {
	n := r.uvarint()
	if r.bad || n > uint64(len(r.b)-r.pos) {
		r.bad = true
		return nil
	}
	out := r.b[r.pos : r.pos+int(n)]
	r.pos += int(n)
	return out
}

func putUvarint(out *bytes.Buffer, v uint64) {
	if v < 128 {
		out.WriteByte(byte(v))
		return
	}
	var tmp [8]byte
	n := 0
	for x := v; x > 0; x >>= 8 {
		n++
	}
	for i := 0; i < n; i++ {
		tmp[n-1-i] = byte(v >> (8 * uint(i)))
	}
	out.WriteByte(byte(-int8(n)))
	out.Write(tmp[:n])
}

// Canon returns the canonical form of b, or b itself when b is not a stream
// this package understands.
func Canon(b []byte) []byte {
	out, ok := canon(b, 0)
	if !ok {
		return b
	}
	// the canonical bytes must decode to the same value as the original
	if !sameValue(b, out) {
		return b
	}
	return out
}

func sameValue(a, b []byte) bool {
	var ma, mb map[string][]byte
	ea := gob.NewDecoder(bytes.NewReader(a)).Decode(&ma)
	eb := gob.NewDecoder(bytes.NewReader(b)).Decode(&mb)
	if ea == nil && eb == nil {
		return mapsEquivalent(ma, mb, 0)
	}
	var la, lb [][]byte
	ea = gob.NewDecoder(bytes.NewReader(a)).Decode(&la)
	eb = gob.NewDecoder(bytes.NewReader(b)).Decode(&lb)
	if ea == nil && eb == nil {
		if len(la) != len(lb) {
			return false
		}
		for i := range la {
			if !bytes.Equal(la[i], lb[i]) && !sameValue(la[i], lb[i]) {
				return false
			}
		}
		return true
	}
	return false
}

func mapsEquivalent(a, b map[string][]byte, depth int) bool {
	if len(a) != len(b) {
		return false
	}
	for k, va := range a {
		vb, ok := b[k]
		if !ok {
			return false
		}
		if bytes.Equal(va, vb) {
			continue
		}
		if depth > 64 || !sameValue(va, vb) {
			return false
		}
	}
	return true
}

func canon(b []byte, depth int) ([]byte, bool) {
	if depth > 64 || len(b) < 4 {
		return nil, false
	}
	r := &reader{b: b}
	var out bytes.Buffer
	kinds := map[int64]byte{} // type id -> 4 (map) / 2 (slice)
	changed := false
	sawValue := false
	for r.pos < len(b) {
		start := r.pos
		l := r.uvarint()
		if r.bad || l == 0 || l > uint64(len(b)-r.pos) {
			return nil, false
		}
		msg := b[r.pos : r.pos+int(l)]
		hdr := b[start:r.pos]
		r.pos += int(l)
		mr := &reader{b: msg}
		id := mr.varint()
		if mr.bad {
			return nil, false
		}
		if id < 0 {
			// type definition: wireType struct, first field delta says which kind
			if mr.pos < len(msg) {
				kinds[-id] = msg[mr.pos]
			}
			out.Write(hdr)
			out.Write(msg)
			continue
		}
		kind := kinds[id]
		if kind != 4 && kind != 2 {
			return nil, false
		}
		if mr.pos >= len(msg) || msg[mr.pos] != 0 {
			return nil, false
		}
		mr.pos++ // singleton delta
		n := mr.uvarint()
		if mr.bad || n > uint64(len(msg)) {
			return nil, false
		}
		var body bytes.Buffer
		if kind == 4 {
			type kv struct{ k, v []byte }
			ents := make([]kv, 0, n)
			for i := uint64(0); i < n; i++ {
				k := mr.bytesN()
				v := mr.bytesN()
				if mr.bad {
					return nil, false
				}
				if cv, ok := canon(v, depth+1); ok && len(cv) == len(v) {
					if !bytes.Equal(cv, v) {
						changed = true
					}
					v = cv
				}
				ents = append(ents, kv{k, v})
			}
			if mr.pos != len(msg) {
				return nil, false
			}
			if !sort.SliceIsSorted(ents, func(i, j int) bool { return bytes.Compare(ents[i].k, ents[j].k) < 0 }) {
				changed = true
				sort.SliceStable(ents, func(i, j int) bool { return bytes.Compare(ents[i].k, ents[j].k) < 0 })
			}
			for _, e := range ents {
				putUvarint(&body, uint64(len(e.k)))
				body.Write(e.k)
				putUvarint(&body, uint64(len(e.v)))
				body.Write(e.v)
			}
		} else {
			for i := uint64(0); i < n; i++ {
				v := mr.bytesN()
				if mr.bad {
					return nil, false
				}
				if cv, ok := canon(v, depth+1); ok && len(cv) == len(v) {
					if !bytes.Equal(cv, v) {
						changed = true
					}
					v = cv
				}
				putUvarint(&body, uint64(len(v)))
				body.Write(v)
			}
			if mr.pos != len(msg) {
				return nil, false
			}
		}
		// re-emit: same header (length is unchanged because only the order changed)
		var m bytes.Buffer
		m.Write(msg[:0])
		idEnd := (&reader{b: msg}).skipVarint()
		m.Write(msg[:idEnd])
		m.WriteByte(0)
		putUvarint(&m, n)
		m.Write(body.Bytes())
		if m.Len() != len(msg) {
			return nil, false
		}
		out.Write(hdr)
		out.Write(m.Bytes())
		sawValue = true
	}
	if !sawValue {
		return nil, false
	}
	_ = changed
	return out.Bytes(), true
}

func (r *reader) skipVarint() int {
	r.uvarint()
	return r.pos
}

var _ = reflect.DeepEqual
