package wire

import (
	"bytes"
	"testing"

	"verif.local/sim/core"
)

// Faults never modify the message they are applied to, and each kind does what it says.
func TestApply(t *testing.T) {
	msg := []byte("0123456789abcdefghijklmnopqrstuvwxyz")
	orig := append([]byte(nil), msg...)
	other := bytes.Repeat([]byte("#"), 100)
	for _, k := range Kinds {
		for a := 0; a < 40; a++ {
			out := Apply(msg, Fault{Kind: k, Chunk: 4, A: a, B: a + 3}, other)
			if !bytes.Equal(msg, orig) {
				t.Fatalf("%s modified its input", k)
			}
			switch k {
			case Truncate:
				if a <= len(msg) && !bytes.Equal(out, msg[:a]) {
					t.Fatalf("truncate@%d = %q", a, out)
				}
			case Loss:
				if len(out) != 0 {
					t.Fatalf("total loss left %d bytes", len(out))
				}
			case BitFlip:
				diff := 0
				for i := range out {
					if out[i] != msg[i] {
						diff++
					}
				}
				if len(out) != len(msg) || diff != 1 {
					t.Fatalf("bit flip changed %d bytes", diff)
				}
			case DropChunk:
				if len(out) != len(msg)-4 {
					t.Fatalf("drop chunk: %d bytes", len(out))
				}
			case DupChunk:
				if len(out) != len(msg)+4 {
					t.Fatalf("dup chunk: %d bytes", len(out))
				}
			case ZeroChunk, SwapChunk, Splice:
				if len(out) != len(msg) {
					t.Fatalf("%s changed the length", k)
				}
			case StaleTail:
				if len(out) != len(other) || !bytes.HasPrefix(out, msg) {
					t.Fatalf("stale tail: %q", out)
				}
			}
		}
	}
}

func TestProgramsAreSeeded(t *testing.T) {
	a := DrawProgram(core.NewTape(3), 500, 3, Kinds)
	b := DrawProgram(core.NewTape(3), 500, 3, Kinds)
	if len(a) != len(b) {
		t.Fatal("same seed, different programs")
	}
	for i := range a {
		if a[i] != b[i] {
			t.Fatal("same seed, different programs")
		}
	}
}
