package wire

import (
	"bytes"
	"fmt"
	"testing"

	"verif.local/sim/core"
)

// Faults never modify the message they are applied to, and each kind does what it says.
func TestApply(t *testing.T) {
	msg := []byte("0123456789abcdefghijklmnopqrstuvwxyz")
	orig := append([]byte(nil), msg...)
	other := bytes.Repeat([]byte("#"), 100)
	for _, k := range Kinds {
		for a := 0; a < 40; a++ {
			out := Apply(msg, Fault{Kind: k, Chunk: 4, A: a, B: a + 3}, other)
			if !bytes.Equal(msg, orig) {
				t.Fatalf("%s modified its input", k)
			}
			switch k {
			case Truncate:
				if a <= len(msg) && !bytes.Equal(out, msg[:a]) {
					t.Fatalf("truncate@%d = %q", a, out)
				}
			case Loss:
				if len(out) != 0 {
					t.Fatalf("total loss left %d bytes", len(out))
				}
			case BitFlip:
				diff := 0
				for i := range out {
					if out[i] != msg[i] {
						diff++
					}
				}
				if len(out) != len(msg) || diff != 1 {
					t.Fatalf("bit flip changed %d bytes", diff)
				}
			case DropChunk:
				if len(out) != len(msg)-4 {
					t.Fatalf("drop chunk: %d bytes", len(out))
				}
			case DupChunk:
				if len(out) != len(msg)+4 {
					t.Fatalf("dup chunk: %d bytes", len(out))
				}
			case ZeroChunk, SwapChunk, Splice:
				if len(out) != len(msg) {
					t.Fatalf("%s changed the length", k)
				}
			case StaleTail:
				if len(out) != len(other) || !bytes.HasPrefix(out, msg) {
					t.Fatalf("stale tail: %q", out)
				}
			}
		}
	}
}

func TestProgramsAreSeeded(t *testing.T) {
	a := DrawProgram(core.NewTape(3), 500, 3, Kinds)
	b := DrawProgram(core.NewTape(3), 500, 3, Kinds)
	if len(a) != len(b) {
		t.Fatal("same seed, different programs")
	}
	for i := range a {
		if a[i] != b[i] {
			t.Fatal("same seed, different programs")
		}
	}
}

func TestFieldsFindsEveryValue(t *testing.T) {
	msg := []byte(`{"a":"x\"y", "b":[1,-2.5e3,{"c":null}], "d":{}, "e":true}`)
	spans := Fields(msg)
	var got []string
	for _, sp := range spans {
		got = append(got, string(sp.Kind)+":"+string(msg[sp.Lo:sp.Hi]))
	}
	want := []string{"o:" + string(msg), `s:"x\"y"`, `a:[1,-2.5e3,{"c":null}]`, "n:1", "n:-2.5e3", `o:{"c":null}`, "l:null", "o:{}", "l:true"}
	if fmt.Sprint(got) != fmt.Sprint(want) {
		t.Fatalf("spans:\n got %q\nwant %q", got, want)
	}
	for _, bad := range []string{``, `{`, `{"a":}`, `[1,]`, `{"a":1}x`, "\x0e\xff\x81", `"abc`} {
		if Fields([]byte(bad)) != nil {
			t.Errorf("Fields(%q) found fields in a malformed message", bad)
		}
	}
}

func TestFieldFaults(t *testing.T) {
	msg := []byte(`{"name":"-PT5M","to":[],"n":7}`)
	for _, tc := range []struct {
		f    Fault
		want string
	}{
		{Fault{Kind: FieldTruncate, A: 0, B: 1}, `{"name":"-","to":[],"n":7}`},
		{Fault{Kind: FieldTruncate, A: 0, B: 0}, `{"name":"","to":[],"n":7}`},
		{Fault{Kind: FieldLost, A: 0, B: 0}, `{"name":null,"to":[],"n":7}`},
		{Fault{Kind: FieldLost, A: 0, B: 1}, `{"to":[],"n":7}`},
		{Fault{Kind: FieldLost, A: 2, B: 1}, `{"name":"-PT5M","to":[]}`},
		{Fault{Kind: FieldMisdirect, A: 0, B: 2}, `{"name":[],"to":[],"n":7}`},
		{Fault{Kind: FieldMisdirect, A: 0, B: 0}, string(msg)}, // the document into itself: identity
		{Fault{Kind: FieldSwap, A: 0, B: 2}, `{"name":7,"to":[],"n":"-PT5M"}`},
		{Fault{Kind: FieldSwap, A: 1, B: 1}, string(msg)},
	} {
		before := string(msg)
		got := Apply(msg, tc.f, nil)
		if string(got) != tc.want {
			t.Errorf("%s: got %s want %s", tc.f, got, tc.want)
		}
		if string(msg) != before {
			t.Fatalf("%s modified its input", tc.f)
		}
		if string(got) != before && Fields(got) == nil {
			t.Errorf("%s: result %s is not well-formed", tc.f, got)
		}
	}
	// no fields, no fault
	gob := []byte{0x0e, 0xff, 0x81, 0x03}
	for _, k := range FieldKinds {
		if got := Apply(gob, Fault{Kind: k, A: 1, B: 2}, nil); string(got) != string(gob) {
			t.Errorf("%s changed a message without fields", k)
		}
	}
}
