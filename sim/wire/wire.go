// Package wire is the simulator's faulty wire / disk (DESIGN.md §4.2): it cuts
// a message into chunks (sector or MTU sized) and applies a fault program
// drawn from the tape, or an explicit single fault in the enumeration tier.
package wire

import (
	"fmt"

	"verif.local/sim/core"
)

// Fault kinds.
const (
	Truncate  = "truncate"   // torn write / short read / connection close at offset k
	DropChunk = "drop_chunk" // lost sector / packet
	DupChunk  = "dup_chunk"  // retransmission
	SwapChunk = "swap_chunks"
	ZeroChunk = "zero_chunk" // unwritten sector
	BitFlip   = "bit_flip"
	StaleTail = "stale_tail" // shorter new encoding written over a longer old one without truncation
	Splice    = "splice"     // chunk of another message written into this one (misdirected write)
	Loss      = "total_loss" // nothing arrives
)

var Kinds = []string{Truncate, DropChunk, DupChunk, SwapChunk, ZeroChunk, BitFlip, StaleTail, Splice, Loss,
	FieldTruncate, FieldLost, FieldMisdirect, FieldSwap, FieldFill}

var ChunkSizes = []int{1, 4, 16, 64, 512}

// Fault is one explicit fault.
type Fault struct {
	Kind  string `json:"kind"`
	Chunk int    `json:"chunk,omitempty"` // chunk size
	A     int    `json:"a,omitempty"`     // offset / chunk index / bit index
	B     int    `json:"b,omitempty"`     // second chunk index / number of bits
}

func (f Fault) String() string {
	switch f.Kind {
	case Truncate:
		return fmt.Sprintf("truncate@%d", f.A)
	case BitFlip:
		return fmt.Sprintf("bit_flip@%d.%d", f.A/8, f.A%8)
	case Loss:
		return "total_loss"
	case SwapChunk:
		return fmt.Sprintf("%s(chunk=%d,%d<->%d)", f.Kind, f.Chunk, f.A, f.B)
	case StaleTail, Splice:
		return fmt.Sprintf("%s(chunk=%d,@%d)", f.Kind, f.Chunk, f.A)
	case FieldTruncate:
		return fmt.Sprintf("%s(text#%d,keep=%d)", f.Kind, f.A, f.B)
	case FieldLost:
		return fmt.Sprintf("%s(value#%d,%s)", f.Kind, f.A, []string{"null", "absent"}[f.B%2])
	case FieldMisdirect, FieldSwap:
		return fmt.Sprintf("%s(value#%d,value#%d)", f.Kind, f.A, f.B)
	case FieldFill:
		return fmt.Sprintf("%s(text %d,0x%02X)", f.Kind, f.A, FillPatterns[f.B%len(FillPatterns)])
	}
	return fmt.Sprintf("%s(chunk=%d,#%d)", f.Kind, f.Chunk, f.A)
}

// Apply applies one fault to msg (never modifying msg) and reports whether
// the result differs from msg. other is another message on the same wire /
// disk (the previous contents of the sector, a neighbouring blob).
func Apply(msg []byte, f Fault, other []byte) []byte {
	switch f.Kind {
	case FieldTruncate, FieldLost, FieldMisdirect, FieldSwap, FieldFill:
		return applyField(msg, f)
	}
	out := append([]byte(nil), msg...)
	cs := f.Chunk
	if cs <= 0 {
		cs = 16
	}
	nChunks := (len(out) + cs - 1) / cs
	chunk := func(i int) (int, int) {
		lo := i * cs
		hi := lo + cs
		if hi > len(out) {
			hi = len(out)
		}
		return lo, hi
	}
	switch f.Kind {
	case Truncate:
		if f.A <= len(out) {
			out = out[:f.A]
		}
	case Loss:
		out = out[:0]
	case BitFlip:
		if len(out) > 0 {
			bit := f.A % (len(out) * 8)
			out[bit/8] ^= 1 << uint(bit%8)
		}
	case DropChunk:
		if nChunks > 0 {
			lo, hi := chunk(f.A % nChunks)
			out = append(out[:lo:lo], out[hi:]...)
		}
	case DupChunk:
		if nChunks > 0 {
			lo, hi := chunk(f.A % nChunks)
			dup := append([]byte(nil), out[lo:hi]...)
			out = append(out[:hi:hi], append(dup, out[hi:]...)...)
		}
	case ZeroChunk:
		if nChunks > 0 {
			lo, hi := chunk(f.A % nChunks)
			for i := lo; i < hi; i++ {
				out[i] = 0
			}
		}
	case SwapChunk:
		if nChunks > 1 {
			a, b := f.A%nChunks, f.B%nChunks
			alo, ahi := chunk(a)
			blo, bhi := chunk(b)
			if a != b && ahi-alo == bhi-blo {
				for i := 0; i < ahi-alo; i++ {
					out[alo+i], out[blo+i] = out[blo+i], out[alo+i]
				}
			}
		}
	case StaleTail:
		// msg overwrote the beginning of a longer older blob
		if len(other) > len(out) {
			out = append(out, other[len(out):]...)
		} else if len(other) > 0 {
			out = append(out, other[len(other)/2:]...)
		}
	case Splice:
		if len(other) > 0 && nChunks > 0 {
			lo, hi := chunk(f.A % nChunks)
			olo := (f.B * cs) % len(other)
			for i := lo; i < hi && olo < len(other); i, olo = i+1, olo+1 {
				out[i] = other[olo]
			}
		}
	}
	return out
}

// DrawProgram draws 1..max faults.
func DrawProgram(t *core.Tape, msgLen int, max int, enabled []string) []Fault {
	n := 1 + t.Draw(max)
	prog := make([]Fault, 0, n)
	for i := 0; i < n; i++ {
		k := enabled[t.Draw(len(enabled))]
		f := Fault{Kind: k, Chunk: ChunkSizes[t.Draw(len(ChunkSizes))]}
		span := msgLen + 1
		switch k {
		case Truncate:
			// bias towards the ends, where length guards live
			switch t.Draw(4) {
			case 0:
				f.A = t.Draw(3)
			case 1:
				f.A = msgLen - 1 - t.Draw(3)
				if f.A < 0 {
					f.A = 0
				}
			default:
				f.A = t.Draw(span)
			}
		case BitFlip:
			f.A = t.Draw(span * 8)
		case FieldTruncate:
			// column widths are small or generous: 0..3 bytes survive, or any number
			f.A = t.Draw(span)
			if t.Bool(1, 2) {
				f.B = t.Draw(4)
			} else {
				f.B = t.Draw(span)
			}
			f.Chunk = 0
		case FieldLost, FieldMisdirect, FieldSwap, FieldFill:
			f.A = t.Draw(span)
			f.B = t.Draw(span)
			f.Chunk = 0
		default:
			f.A = t.Draw(span)
			f.B = t.Draw(span)
		}
		prog = append(prog, f)
	}
	return prog
}

// Run applies a program.
func Run(msg []byte, prog []Fault, other []byte) []byte {
	out := msg
	for _, f := range prog {
		out = Apply(out, f, other)
	}
	return out
}
