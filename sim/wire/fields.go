package wire

// Record-level faults. A store or relay that keeps a document as a record of
// named fields (a row per object with a column per property, a key/value
// store with one key per member, a proxy that re-assembles documents) fails at
// the granularity of a field, not of a sector: a text is cut at the column
// width, the write of one field is lost, a value is written under the wrong
// key, two values change places. The document that comes out is still
// well-formed JSON, which is exactly what byte-level damage almost never
// produces: a value of the wrong type under a known name, an empty or
// one-character text where a structured text is expected, a missing member.
//
// The scanner below is written for this package (it is not the library's
// parser and not encoding/json): it only finds where values begin and end.
// A message that is not well-formed JSON (a gob blob, an already torn
// document) has no fields: the fault is then the identity and is not counted.

const (
	FieldTruncate  = "field_truncate"  // a text cut at the column width: B bytes of it survive
	FieldLost      = "field_lost"      // the write of one field is lost: null (B even) or the member is absent (B odd)
	FieldMisdirect = "field_misdirect" // value B is written where value A belongs
	FieldSwap      = "field_swap"      // values A and B change places
	FieldFill      = "field_fill"      // a text overwritten, at its own length, by a fill pattern (0xAA, 0x80, 0xFF, 0xBF by B)
)

// FillPatterns are the bytes a store leaves where a value was never written: test and erase patterns.
var FillPatterns = []byte{0xAA, 0x80, 0xFF, 0xBF}

// FieldKinds are the record-level fault kinds.
var FieldKinds = []string{FieldTruncate, FieldLost, FieldMisdirect, FieldSwap, FieldFill}

// Span is one JSON value inside a message.
type Span struct {
	Lo, Hi   int  // the value's bytes are msg[Lo:Hi]
	Kind     byte // 's' string, 'n' number, 'o' object, 'a' array, 'l' true/false/null
	MemberLo int  // start of the `"key":` when the value is an object member, else -1
}

// Fields returns every value of a well-formed JSON message in document
// order (a container before its members), or nil when msg is not well-formed.
func Fields(msg []byte) []Span {
	s := scanner{b: msg}
	i := s.ws(0)
	end, ok := s.value(i, -1, 0)
	if !ok || s.ws(end) != len(msg) {
		return nil
	}
	return s.out
}

type scanner struct {
	b   []byte
	out []Span
}

func (s *scanner) ws(i int) int {
	for i < len(s.b) && (s.b[i] == ' ' || s.b[i] == '\t' || s.b[i] == '\n' || s.b[i] == '\r') {
		i++
	}
	return i
}

func (s *scanner) str(i int) (int, bool) {
	if i >= len(s.b) || s.b[i] != '"' {
		return 0, false
	}
	for i++; i < len(s.b); i++ {
		switch s.b[i] {
		case '\\':
			i++
		case '"':
			return i + 1, true
		}
	}
	return 0, false
}

func (s *scanner) value(i, memberLo, depth int) (int, bool) {
	if i >= len(s.b) || depth > 512 {
		return 0, false
	}
	idx := len(s.out)
	s.out = append(s.out, Span{Lo: i, MemberLo: memberLo})
	var end int
	var kind byte
	switch c := s.b[i]; {
	case c == '"':
		e, ok := s.str(i)
		if !ok {
			return 0, false
		}
		end, kind = e, 's'
	case c == '{':
		kind = 'o'
		j := s.ws(i + 1)
		if j < len(s.b) && s.b[j] == '}' {
			end = j + 1
			break
		}
		for {
			j = s.ws(j)
			ke, ok := s.str(j)
			if !ok {
				return 0, false
			}
			k := s.ws(ke)
			if k >= len(s.b) || s.b[k] != ':' {
				return 0, false
			}
			ve, ok := s.value(s.ws(k+1), j, depth+1)
			if !ok {
				return 0, false
			}
			j = s.ws(ve)
			if j >= len(s.b) {
				return 0, false
			}
			if s.b[j] == ',' {
				j++
				continue
			}
			if s.b[j] == '}' {
				end = j + 1
				break
			}
			return 0, false
		}
	case c == '[':
		kind = 'a'
		j := s.ws(i + 1)
		if j < len(s.b) && s.b[j] == ']' {
			end = j + 1
			break
		}
		for {
			ve, ok := s.value(s.ws(j), -1, depth+1)
			if !ok {
				return 0, false
			}
			j = s.ws(ve)
			if j >= len(s.b) {
				return 0, false
			}
			if s.b[j] == ',' {
				j++
				continue
			}
			if s.b[j] == ']' {
				end = j + 1
				break
			}
			return 0, false
		}
	case c == '-' || (c >= '0' && c <= '9'):
		kind = 'n'
		j := i + 1
		for j < len(s.b) && (s.b[j] == '+' || s.b[j] == '-' || s.b[j] == '.' || s.b[j] == 'e' || s.b[j] == 'E' || (s.b[j] >= '0' && s.b[j] <= '9')) {
			j++
		}
		end = j
	default:
		kind = 'l'
		for _, lit := range []string{"true", "false", "null"} {
			if len(s.b)-i >= len(lit) && string(s.b[i:i+len(lit)]) == lit {
				end = i + len(lit)
			}
		}
		if end == 0 {
			return 0, false
		}
	}
	s.out[idx].Hi, s.out[idx].Kind = end, kind
	return end, true
}

// applyField applies a record-level fault; msg is returned unchanged when it has no fields.
func applyField(msg []byte, f Fault) []byte {
	spans := Fields(msg)
	if len(spans) == 0 {
		return msg
	}
	splice := func(lo, hi int, with []byte) []byte {
		out := make([]byte, 0, len(msg)-(hi-lo)+len(with))
		out = append(out, msg[:lo]...)
		out = append(out, with...)
		return append(out, msg[hi:]...)
	}
	switch f.Kind {
	case FieldTruncate:
		var strs []Span
		for _, sp := range spans {
			if sp.Kind == 's' {
				strs = append(strs, sp)
			}
		}
		if len(strs) == 0 {
			return msg
		}
		sp := strs[f.A%len(strs)]
		content := sp.Hi - sp.Lo - 2
		keep := f.B % (content + 1)
		return splice(sp.Lo+1+keep, sp.Hi-1, nil)
	case FieldFill:
		var strs []Span
		for _, sp := range spans {
			if sp.Kind == 's' && sp.Hi-sp.Lo > 2 {
				strs = append(strs, sp)
			}
		}
		if len(strs) == 0 {
			return msg
		}
		// texts come first by length half of the time (A odd: the longest text; A even: text #A/2)
		sp := strs[(f.A/2)%len(strs)]
		if f.A%2 == 1 {
			for _, c := range strs {
				if c.Hi-c.Lo > sp.Hi-sp.Lo {
					sp = c
				}
			}
		}
		fill := make([]byte, sp.Hi-sp.Lo-2)
		for i := range fill {
			fill[i] = FillPatterns[f.B%len(FillPatterns)]
		}
		return splice(sp.Lo+1, sp.Hi-1, fill)
	case FieldLost:
		// (never the whole document: that is total_loss)
		if len(spans) < 2 {
			return msg
		}
		sp := spans[1+f.A%(len(spans)-1)]
		if f.B%2 == 0 {
			return splice(sp.Lo, sp.Hi, []byte("null"))
		}
		lo, hi := sp.Lo, sp.Hi
		if sp.MemberLo >= 0 {
			lo = sp.MemberLo
		}
		// take one neighbouring comma along
		j := hi
		for j < len(msg) && (msg[j] == ' ' || msg[j] == '\n' || msg[j] == '\t' || msg[j] == '\r') {
			j++
		}
		if j < len(msg) && msg[j] == ',' {
			hi = j + 1
		} else {
			k := lo - 1
			for k >= 0 && (msg[k] == ' ' || msg[k] == '\n' || msg[k] == '\t' || msg[k] == '\r') {
				k--
			}
			if k >= 0 && msg[k] == ',' {
				lo = k
			}
		}
		return splice(lo, hi, nil)
	case FieldMisdirect:
		if len(spans) < 2 {
			return msg
		}
		dst := spans[1+f.A%(len(spans)-1)]
		src := spans[f.B%len(spans)]
		if src.Lo <= dst.Lo && dst.Hi <= src.Hi {
			// a value written into itself would nest the document in itself
			return msg
		}
		return splice(dst.Lo, dst.Hi, append([]byte(nil), msg[src.Lo:src.Hi]...))
	case FieldSwap:
		if len(spans) < 3 {
			return msg
		}
		a, b := spans[1+f.A%(len(spans)-1)], spans[1+f.B%(len(spans)-1)]
		if a.Lo > b.Lo {
			a, b = b, a
		}
		if a.Hi > b.Lo {
			return msg // the same value, or one inside the other
		}
		out := make([]byte, 0, len(msg))
		out = append(out, msg[:a.Lo]...)
		out = append(out, msg[b.Lo:b.Hi]...)
		out = append(out, msg[a.Hi:b.Lo]...)
		out = append(out, msg[a.Lo:a.Hi]...)
		return append(out, msg[b.Hi:]...)
	}
	return msg
}
