// Package warm removes a process-history dependence from encoding/gob: gob
// assigns its type ids from one process-global counter in order of first use,
// and the ids are part of the encoded bytes, so the same value encodes to a
// different byte string depending on which types were encoded or decoded
// earlier in the process. Gob runs a fixed sequence of encodes and decodes
// over every type of the library at child start, so that every process has
// the same id assignment before the first simulated run.
package warm

import (
	"encoding/gob"
	"reflect"

	ap "github.com/go-ap/activitypub"

	"verif.local/sim/core"
	"verif.local/sim/gen"
)

// Gob is called once, first thing in the child.
func Gob() {
	defer func() { _ = recover() }()
	k := gen.Knobs{MaxDepth: 3, FieldP: 16, MaxList: 2, Budget: 400, Links: true, ValueForms: false, SmallNumbers: true}
	t := core.NewTape(0x9a7b)
	g := gen.New(t, k)
	roundTrip := func(it ap.Item) {
		defer func() { _ = recover() }()
		if b, err := ap.GobEncode(it); err == nil {
			_, _ = ap.GobDecode(b)
		}
	}
	for i := range gen.Kinds {
		roundTrip(g.StructItem(&gen.Kinds[i], 0, false))
	}
	roundTrip(g.Link(0))
	roundTrip(g.List(0, 2))
	roundTrip(ap.IRIs{"https://example.com/1", "https://example.com/2"})
	roundTrip(ap.IRI("https://example.com/1"))
	// every exported type's own encoder / decoder pair, in name order
	types := ap.VerifTypes()
	for _, tn := range core.SortedKeys(types) {
		func() {
			defer func() { _ = recover() }()
			pt := reflect.TypeOf(types[tn])
			v := g.Any(pt.Elem(), 1)
			p := reflect.New(pt.Elem())
			p.Elem().Set(v)
			for _, pair := range [][2]string{{"GobEncode", "GobDecode"}, {"MarshalBinary", "UnmarshalBinary"}} {
				em := p.MethodByName(pair[0])
				if !em.IsValid() || em.Type().NumIn() != 0 || em.Type().NumOut() != 2 {
					continue
				}
				outs := em.Call(nil)
				b, ok := outs[0].Interface().([]byte)
				if !ok {
					continue
				}
				q := reflect.New(pt.Elem())
				if dm := q.MethodByName(pair[1]); dm.IsValid() && dm.Type().NumIn() == 1 {
					func() {
						defer func() { _ = recover() }()
						dm.Call([]reflect.Value{reflect.ValueOf(b)})
					}()
				}
			}
		}()
	}
	// the foreign schemas of gen.ForeignGob, in order
	for k := 0; k < gen.ForeignGobShapes; k++ {
		_ = gen.ForeignGobShape(core.NewTape(uint64(k)+1), k)
	}
	// the shapes the harness itself decodes (gob canonicaliser, result rendering)
	var mm map[string][]byte
	var ll [][]byte
	_ = gob.NewDecoder(nilReader{}).Decode(&mm)
	_ = gob.NewDecoder(nilReader{}).Decode(&ll)
}

type nilReader struct{}

func (nilReader) Read(p []byte) (int, error) { return 0, errEOF{} }

type errEOF struct{}

func (errEOF) Error() string { return "EOF" }
