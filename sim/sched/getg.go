package sched

// Getg returns the identity of the calling goroutine (implemented in assembly).
func Getg() uintptr
