//go:build !race

// (Under -race this test is *expected* to report a data race on `order`: the tasks are handed
// off through raw pipe syscalls precisely so that ThreadSanitizer keeps seeing them as unordered.)
package sched

import (
	"sync"
	"testing"
)

// runToy runs three tasks that call Yield a fixed number of times and records
// the order in which steps were executed; exactly one task may run at a time.
func runToy(t *testing.T, cfg Config) ([]Switch, []int) {
	s, err := New(cfg)
	if err != nil {
		t.Fatal(err)
	}
	defer s.Close()
	var order []int // written by whichever task runs: serialised by the scheduler
	running := 0
	var wg sync.WaitGroup
	for ti := 0; ti < cfg.Tasks; ti++ {
		wg.Add(1)
		go func(ti int) {
			defer wg.Done()
			s.Enter(ti)
			for i := 0; i < 200; i++ {
				running++
				if running != 1 {
					t.Errorf("two tasks inside the critical region")
				}
				order = append(order, ti)
				running--
				s.Yield(uint32(i))
			}
			s.Exit(ti)
		}(ti)
	}
	s.Start()
	wg.Wait()
	return append([]Switch(nil), s.Switches...), order
}

func TestOneSeedOneSchedule(t *testing.T) {
	for _, pol := range []int{PolicyRandomWalk, PolicyPCT} {
		cfg := Config{Tasks: 3, Seed: 99, Policy: pol, Denom: 4, ChangeAt: []int64{50, 300}, JournalFd: -1}
		sw1, o1 := runToy(t, cfg)
		cfg2 := Config{Tasks: 3, Seed: 99, Policy: pol, Denom: 4, ChangeAt: []int64{50, 300}, JournalFd: -1}
		sw2, o2 := runToy(t, cfg2)
		if len(sw1) != len(sw2) || len(o1) != 600 || len(o2) != 600 {
			t.Fatalf("policy %d: %d vs %d switches, %d steps", pol, len(sw1), len(sw2), len(o1))
		}
		for i := range o1 {
			if o1[i] != o2[i] {
				t.Fatalf("policy %d: same seed, different interleaving at step %d", pol, i)
			}
		}
		// replaying the recorded schedule reproduces the interleaving exactly
		var rep []Switch2
		for _, sw := range sw1 {
			rep = append(rep, Switch2{Step: sw.Step, Task: sw.To})
		}
		_, o3 := runToy(t, Config{Tasks: 3, Policy: PolicyReplay, Replay: rep, JournalFd: -1})
		for i := range o1 {
			if o1[i] != o3[i] {
				t.Fatalf("policy %d: replay diverges at step %d", pol, i)
			}
		}
		// any sub-list of a schedule is a valid schedule (the minimiser drops switches)
		_, o4 := runToy(t, Config{Tasks: 3, Policy: PolicyReplay, Replay: rep[:len(rep)/2], JournalFd: -1})
		if len(o4) != 600 {
			t.Fatalf("thinned schedule lost steps: %d", len(o4))
		}
	}
}
