#include "textflag.h"

// func Getg() uintptr
// The identity of the calling goroutine (the address of its runtime g): the
// scheduler uses it to tell the task it is running from a goroutine the code
// under test started by itself.
TEXT ·Getg(SB),NOSPLIT,$0-8
	MOVQ (TLS), AX
	MOVQ AX, ret+0(FP)
	RET
