// Package sched is the simulator's scheduler for C12 (DESIGN.md §2.3): real
// goroutines, exactly one of which runs at any moment; all others are parked
// in a raw read(2) on their private pipe. The running task reaches the
// scheduler at every library statement (the yield hook) and at operation
// boundaries. Hand-off goes through raw syscalls issued from //go:norace
// functions, so ThreadSanitizer sees no happens-before edge between tasks:
// they stay as unordered as N unsynchronised caller goroutines would be,
// while one seed still decides one exact serial interleaving.
//
// Everything the tasks share with the scheduler lives in this package and is
// touched only from //go:norace code.
package sched

import (
	"syscall"
	"unsafe"
)

// Policy kinds.
const (
	PolicyRandomWalk = iota // switch with probability 1/Denom at every yield
	PolicyPreempt           // d preemptions at drawn task-local steps, otherwise run to completion
	PolicyPCT               // random priorities with d priority-change points (Burckhardt et al.)
	PolicyReplay            // follow an explicit schedule
	PolicySequential        // task 0, then 1, … (no preemption)
)

type Switch struct {
	Step int64
	From int
	To   int
	Site uint32
}

// Event is one entry of the event log.
type Event struct {
	Seq  int64
	Step int64
	Task int
	Kind uint8 // 0 switch, 1 op invoke, 2 op return, 3 task exit
	A    uint32
	B    uint64
}

type task struct {
	g         uintptr // identity of the task's goroutine
	rfd, wfd  int
	live      bool
	localStep int64
	prio      int
}

// S is one simulated execution.
type S struct {
	blockedRun int64 // Blocked polls since the last statement any task executed
	tasks      []task
	cur        int
	step       int64
	seq        int64
	rng        uint64
	policy     int
	denom      uint64
	// preempt policy: task-local steps at which a task is preempted
	preemptAt [][]int64
	// PCT
	changeAt []int64
	nextLow  int
	// replay
	replay []Switch2
	rpos   int

	Switches []Switch
	Events   []Event
	// CheckEvery: call Check at every n-th switch (1 = every switch); Check is
	// always called at operation boundaries.
	CheckEvery int
	sinceCheck int
	Check      func(task int, site uint32, step int64)
	journalFd  int
	inOp       []bool
	// SwitchInsideOp counts switches that happened while the preempted task
	// was inside an operation.
	SwitchInsideOp int64
	active         bool
	lastSite       uint32
	// parkSite[t] is the site at which task t was last switched out
	// (0xffffffff: not started yet); Pairs collects, for every preemption
	// inside an operation, (site where the running task was preempted, site at
	// which the resumed task continues).
	parkSite []uint32
	Pairs    [][2]uint32
	// BlockedPolls counts hand-overs forced by a task that could not take a lock.
	BlockedPolls int64
	// ForeignYields counts yields reached on goroutines the code under test started itself.
	ForeignYields int64
}

// Switch2 is a replayable switch point.
type Switch2 struct {
	Step int64
	Task int
}

//go:norace
func (s *S) next64() uint64 {
	s.rng += 0x9e3779b97f4a7c15
	z := s.rng
	z = (z ^ (z >> 30)) * 0xbf58476d1ce4e5b9
	z = (z ^ (z >> 27)) * 0x94d049bb133111eb
	return z ^ (z >> 31)
}

//go:norace
func (s *S) intn(n int) int {
	if n <= 1 {
		return 0
	}
	return int(s.next64() % uint64(n))
}

// Config describes a run.
type Config struct {
	Tasks      int
	Seed       uint64
	Policy     int
	Denom      int       // random walk: switch probability 1/Denom
	PreemptAt  [][]int64 // preempt policy
	ChangeAt   []int64   // PCT: global steps of the priority change points
	Replay     []Switch2
	CheckEvery int
	JournalFd  int // -1: none
}

// New creates the pipes; tasks are started by Go.
func New(cfg Config) (*S, error) {
	s := &S{rng: cfg.Seed, policy: cfg.Policy, denom: uint64(cfg.Denom), preemptAt: cfg.PreemptAt, changeAt: cfg.ChangeAt,
		replay: cfg.Replay, CheckEvery: cfg.CheckEvery, journalFd: cfg.JournalFd}
	if s.denom == 0 {
		s.denom = 16
	}
	s.tasks = make([]task, cfg.Tasks)
	s.inOp = make([]bool, cfg.Tasks)
	s.parkSite = make([]uint32, cfg.Tasks)
	for i := range s.parkSite {
		s.parkSite[i] = 0xffffffff
	}
	s.Pairs = make([][2]uint32, 0, 1024)
	for i := range s.tasks {
		var fds [2]int
		if err := syscall.Pipe2(fds[:], syscall.O_CLOEXEC); err != nil {
			return nil, err
		}
		s.tasks[i] = task{rfd: fds[0], wfd: fds[1], live: true}
	}
	if s.policy == PolicyPCT {
		// distinct random priorities above the number of change points
		perm := make([]int, cfg.Tasks)
		for i := range perm {
			perm[i] = i
		}
		for i := cfg.Tasks - 1; i > 0; i-- {
			j := s.intn(i + 1)
			perm[i], perm[j] = perm[j], perm[i]
		}
		for i := range s.tasks {
			s.tasks[i].prio = len(cfg.ChangeAt) + 1 + perm[i]
		}
		s.nextLow = len(cfg.ChangeAt)
	}
	s.Switches = make([]Switch, 0, 4096)
	s.Events = make([]Event, 0, 8192)
	return s, nil
}

// Close releases the pipes.
func (s *S) Close() {
	for i := range s.tasks {
		syscall.Close(s.tasks[i].rfd)
		syscall.Close(s.tasks[i].wfd)
	}
}

//go:norace
func rawWrite(fd int, b *byte, n int) {
	for {
		_, _, e := syscall.Syscall(syscall.SYS_WRITE, uintptr(fd), uintptr(unsafe.Pointer(b)), uintptr(n))
		if e == syscall.EINTR || e == syscall.EAGAIN {
			continue
		}
		return
	}
}

//go:norace
func rawRead(fd int) {
	var b [1]byte
	for {
		n, _, e := syscall.Syscall(syscall.SYS_READ, uintptr(fd), uintptr(unsafe.Pointer(&b[0])), 1)
		if e == syscall.EINTR || e == syscall.EAGAIN {
			continue
		}
		if n == 1 || e != 0 {
			return
		}
	}
}

var one = [1]byte{1}

//go:norace
func (s *S) wake(t int) { rawWrite(s.tasks[t].wfd, &one[0], 1) }

//go:norace
func (s *S) park(t int) { rawRead(s.tasks[t].rfd) }

// Start releases the first task. Called by the main goroutine after every
// task goroutine has been created (they park themselves first thing).
//
//go:norace
func (s *S) Start() {
	s.active = true
	first := 0
	switch s.policy {
	case PolicyReplay:
		if len(s.replay) > 0 && s.replay[0].Step == 0 && s.replay[0].Task < len(s.tasks) {
			first = s.replay[0].Task
			s.rpos = 1
		}
	case PolicyPCT:
		first = s.highest(-1)
	case PolicySequential:
		first = 0
	default:
		first = s.intn(len(s.tasks))
	}
	s.cur = first
	s.record(Switch{Step: 0, From: -1, To: first})
	s.wake(first)
}

// Enter parks a freshly created task until it is scheduled.
//
//go:norace
func (s *S) Enter(t int) {
	s.tasks[t].g = Getg()
	s.park(t)
}

// Foreign reports that the caller is not the goroutine of the running task:
// a goroutine the code under test started by itself (a parallelised helper).
// Such goroutines run unsupervised – the scheduler neither counts nor
// preempts them – while the task that waits for them stays "running".
//
//go:norace
func (s *S) Foreign() bool {
	return s.active && Getg() != s.tasks[s.cur].g
}

//go:norace
func (s *S) record(sw Switch) {
	s.Switches = append(s.Switches, sw)
	s.seq++
	s.Events = append(s.Events, Event{Seq: s.seq, Step: sw.Step, Task: sw.To, Kind: 0, A: sw.Site, B: uint64(sw.From + 1)})
	if s.journalFd >= 0 {
		var buf [48]byte
		n := 0
		buf[n] = 'S'
		n++
		buf[n] = ' '
		n++
		n += itoa(buf[n:], sw.Step)
		buf[n] = ' '
		n++
		n += itoa(buf[n:], int64(sw.To))
		buf[n] = '\n'
		n++
		rawWrite(s.journalFd, &buf[0], n)
	}
}

//go:norace
func itoa(b []byte, v int64) int {
	if v == 0 {
		b[0] = '0'
		return 1
	}
	var tmp [20]byte
	i := len(tmp)
	neg := v < 0
	if neg {
		v = -v
	}
	for v > 0 {
		i--
		tmp[i] = byte('0' + v%10)
		v /= 10
	}
	if neg {
		i--
		tmp[i] = '-'
	}
	return copy(b, tmp[i:])
}

//go:norace
func (s *S) liveOther(except int) int {
	n := 0
	for i := range s.tasks {
		if s.tasks[i].live && i != except {
			n++
		}
	}
	if n == 0 {
		return -1
	}
	k := s.intn(n)
	for i := range s.tasks {
		if s.tasks[i].live && i != except {
			if k == 0 {
				return i
			}
			k--
		}
	}
	return -1
}

//go:norace
func (s *S) lowestLive(except int) int {
	for i := range s.tasks {
		if s.tasks[i].live && i != except {
			return i
		}
	}
	return -1
}

//go:norace
func (s *S) highest(except int) int {
	best, bp := -1, -1
	for i := range s.tasks {
		if s.tasks[i].live && i != except && s.tasks[i].prio > bp {
			best, bp = i, s.tasks[i].prio
		}
	}
	return best
}

// Yield is the hook body: called by the running task before every library
// statement.
//
//go:norace
func (s *S) Yield(site uint32) {
	if !s.active {
		return
	}
	t := s.cur
	if Getg() != s.tasks[t].g {
		s.ForeignYields++
		return
	}
	s.step++
	s.blockedRun = 0
	s.tasks[t].localStep++
	s.lastSite = site
	next := t
	switch s.policy {
	case PolicyRandomWalk:
		if s.next64()%s.denom == 0 {
			if o := s.liveOther(t); o >= 0 {
				next = o
			}
		}
	case PolicyPreempt:
		pa := s.preemptAt[t]
		for len(pa) > 0 && pa[0] < s.tasks[t].localStep {
			pa = pa[1:]
		}
		if len(pa) > 0 && pa[0] == s.tasks[t].localStep {
			pa = pa[1:]
			if o := s.liveOther(t); o >= 0 {
				next = o
			}
		}
		s.preemptAt[t] = pa
	case PolicyPCT:
		for len(s.changeAt) > 0 && s.changeAt[0] <= s.step {
			s.changeAt = s.changeAt[1:]
			s.tasks[t].prio = s.nextLow
			s.nextLow--
		}
		if h := s.highest(-1); h >= 0 {
			next = h
		}
	case PolicyReplay:
		for s.rpos < len(s.replay) && s.replay[s.rpos].Step < s.step {
			s.rpos++
		}
		if s.rpos < len(s.replay) && s.replay[s.rpos].Step == s.step {
			to := s.replay[s.rpos].Task
			s.rpos++
			if to >= 0 && to < len(s.tasks) && s.tasks[to].live {
				next = to
			}
		}
	}
	if next != t {
		s.switchTo(t, next, site)
	}
}

//go:norace
func (s *S) switchTo(from, to int, site uint32) {
	s.switchTo2(from, to, site, false)
}

// switchTo2: quiet switches (the polls of tasks that wait for a lock, past the first 64 in a
// row) are neither recorded nor checked: there can be hundreds of thousands of them and a
// replay finds its way without them (Blocked falls back to round robin).
//
//go:norace
func (s *S) switchTo2(from, to int, site uint32, quiet bool) {
	if s.inOp[from] {
		s.SwitchInsideOp++
		if len(s.Pairs) < cap(s.Pairs) {
			s.Pairs = append(s.Pairs, [2]uint32{site, s.parkSite[to]})
		}
	}
	s.parkSite[from] = site
	if !quiet {
		s.sinceCheck++
		if s.Check != nil && s.CheckEvery > 0 && s.sinceCheck >= s.CheckEvery {
			s.sinceCheck = 0
			s.Check(from, site, s.step)
		}
		s.record(Switch{Step: s.step, From: from, To: to, Site: site})
	}
	s.cur = to
	s.wake(to)
	s.park(from)
}

// DeadlockPanic is raised in a task that is blocked while no other task is
// left to run (the lock it waits for will never be released).
type DeadlockPanic struct{}

// Blocked is called (through verifsim.Blocked) by the running task when it
// cannot take a lock held by a parked task: hand over to another live task.
// A poll counts as a step, so that (step, task) stays a unique switch point.
//
//go:norace
func (s *S) Blocked() {
	if !s.active {
		panic(DeadlockPanic{})
	}
	t := s.cur
	if Getg() != s.tasks[t].g {
		// a goroutine of the code under test's own: it can only wait
		osyield()
		return
	}
	s.step++
	s.BlockedPolls++
	s.blockedRun++
	if s.blockedRun > 200000 {
		// tasks blocked on each other for ever: a deadlock or livelock of the code under test
		msg := []byte("verif-sched: tasks blocked on each other (deadlock or livelock)\n")
		rawWrite(2, &msg[0], len(msg))
		syscall.Exit(78)
	}
	next := -1
	if s.policy == PolicyReplay {
		for s.rpos < len(s.replay) && s.replay[s.rpos].Step < s.step {
			s.rpos++
		}
		if s.rpos < len(s.replay) && s.replay[s.rpos].Step == s.step {
			to := s.replay[s.rpos].Task
			s.rpos++
			if to >= 0 && to < len(s.tasks) && s.tasks[to].live && to != t {
				next = to
			}
		}
		if next < 0 {
			next = s.nextLiveAfter(t)
		}
	} else {
		next = s.liveOther(t)
	}
	if next < 0 {
		// no other task to run: the holder can still be a goroutine the code under test started
		// itself (it lets go in a moment); a lock that stays taken ends in the livelock exit above
		osyield()
		return
	}
	s.switchTo2(t, next, 0xfffffffc, s.blockedRun > 64)
}

// nextLiveAfter: round robin, so that a replay whose schedule was thinned out
// still reaches the task that holds the lock.
//
//go:norace
func (s *S) nextLiveAfter(t int) int {
	n := len(s.tasks)
	for i := 1; i < n; i++ {
		c := (t + i) % n
		if s.tasks[c].live {
			return c
		}
	}
	return -1
}

//go:norace
func osyield() {
	syscall.Syscall(syscall.SYS_SCHED_YIELD, 0, 0, 0)
}

// OpBegin / OpEnd bracket an operation of the running task.
//
//go:norace
func (s *S) OpBegin(t int, op uint32) {
	s.seq++
	s.Events = append(s.Events, Event{Seq: s.seq, Step: s.step, Task: t, Kind: 1, A: op})
	s.inOp[t] = true
}

//go:norace
func (s *S) OpEnd(t int, op uint32, resultHash uint64) {
	s.inOp[t] = false
	s.seq++
	s.Events = append(s.Events, Event{Seq: s.seq, Step: s.step, Task: t, Kind: 2, A: op, B: resultHash})
	if s.Check != nil {
		s.Check(t, 0xfffffffe, s.step)
	}
}

// Exit is called by a task that has finished; it hands over to another live
// task (none left: the run is over).
//
//go:norace
func (s *S) Exit(t int) {
	s.tasks[t].live = false
	s.seq++
	s.Events = append(s.Events, Event{Seq: s.seq, Step: s.step, Task: t, Kind: 3})
	next := -1
	switch s.policy {
	case PolicyReplay:
		for s.rpos < len(s.replay) && s.replay[s.rpos].Step < s.step {
			s.rpos++
		}
		// an exit hand-over is recorded with the step at which it happened
		if s.rpos < len(s.replay) && s.replay[s.rpos].Step == s.step {
			to := s.replay[s.rpos].Task
			if to >= 0 && to < len(s.tasks) && s.tasks[to].live {
				next = to
				s.rpos++
			}
		}
		if next < 0 {
			next = s.lowestLive(t)
		}
	case PolicyPCT:
		next = s.highest(t)
	case PolicySequential:
		next = s.lowestLive(t)
	default:
		next = s.liveOther(t)
	}
	if next < 0 {
		s.active = false
		return
	}
	s.record(Switch{Step: s.step, From: t, To: next, Site: 0xfffffffd})
	s.cur = next
	s.wake(next)
}

// Step returns simulated time.
//
//go:norace
func (s *S) Step() int64 { return s.step }

// Cur returns the running task.
//
//go:norace
func (s *S) Cur() int { return s.cur }

// LocalSteps returns the number of yields each task executed.
func (s *S) LocalSteps() []int64 {
	out := make([]int64, len(s.tasks))
	for i := range s.tasks {
		out[i] = s.tasks[i].localStep
	}
	return out
}
