package core

import "testing"

// A replayed tape must yield the draws that were recorded, and 0 once exhausted.
func TestTapeReplay(t *testing.T) {
	g := NewTape(42)
	var want []int
	for i := 0; i < 1000; i++ {
		want = append(want, g.Draw(1+i%17))
	}
	r := ReplayTape(g.Recorded())
	for i := 0; i < 1000; i++ {
		if got := r.Draw(1 + i%17); got != want[i] {
			t.Fatalf("draw %d: got %d want %d", i, got, want[i])
		}
	}
	if r.Draw(5) != 0 || r.Over != 1 {
		t.Fatalf("exhausted tape must return 0")
	}
	// two tapes from one seed agree; two seeds differ
	a, b, c := NewTape(7), NewTape(7), NewTape(8)
	same, diff := true, false
	for i := 0; i < 100; i++ {
		x, y, z := a.Draw(1000), b.Draw(1000), c.Draw(1000)
		same = same && x == y
		diff = diff || x != z
	}
	if !same || !diff {
		t.Fatalf("seeding broken: same=%v diff=%v", same, diff)
	}
}

func TestMixSpreads(t *testing.T) {
	seen := map[uint64]bool{}
	for k := uint64(0); k < 10000; k++ {
		seen[Mix(1, k)] = true
	}
	if len(seen) != 10000 {
		t.Fatalf("Mix collides: %d distinct of 10000", len(seen))
	}
}
