// Package core holds what every check shares: the PRNG, the choice tape, the
// run plan (= replay file) and the per-run record of the child protocol.
// Nothing in here reads a clock or any other source of nondeterminism.
package core

import (
	"encoding/json"
	"fmt"
	"hash/fnv"
	"sort"
)

// ---------------------------------------------------------------- PRNG

// RNG is SplitMix64. It is written here (not math/rand) so that it can be
// used from //go:norace scheduler code without instrumented stdlib frames.
type RNG struct{ s uint64 }

//go:norace
func NewRNG(seed uint64) *RNG { return &RNG{s: seed} }

//go:norace
func (r *RNG) Next() uint64 {
	r.s += 0x9e3779b97f4a7c15
	z := r.s
	z = (z ^ (z >> 30)) * 0xbf58476d1ce4e5b9
	z = (z ^ (z >> 27)) * 0x94d049bb133111eb
	return z ^ (z >> 31)
}

//go:norace
func (r *RNG) Intn(n int) int {
	if n <= 1 {
		return 0
	}
	return int(r.Next() % uint64(n))
}

// Mix derives the seed of run k of a batch from the batch seed, so that every
// run is reproducible on its own.
func Mix(seed uint64, k uint64) uint64 {
	r := RNG{s: seed ^ (k+1)*0xd1342543de82ef95}
	r.Next()
	return r.Next()
}

// ---------------------------------------------------------------- tape

// Tape is the single source of choices of a run. In generation mode it draws
// from the PRNG and records; in replay mode it plays the recorded numbers
// back (modulo the requested range; 0 once exhausted).
type Tape struct {
	rng    *RNG
	rec    []uint32
	replay bool
	pos    int
	// Over counts draws made past the end of a replayed tape (diagnostic).
	Over int
	// Journal, if set, is called with every number drawn in generation mode
	// (used to recover the tape of a run that kills its process).
	Journal func(v uint32)
}

func NewTape(seed uint64) *Tape { return &Tape{rng: NewRNG(seed)} }

func ReplayTape(t []uint32) *Tape { return &Tape{rec: append([]uint32(nil), t...), replay: true} }

// Draw returns a number in [0,n).
func (t *Tape) Draw(n int) int {
	if n <= 1 {
		// still consumes a slot so that tapes stay aligned when a range
		// collapses to one choice
		n = 1
	}
	if t.replay {
		if t.pos >= len(t.rec) {
			t.Over++
			t.pos++
			return 0
		}
		v := int(t.rec[t.pos]) % n
		t.pos++
		return v
	}
	v := t.rng.Intn(n)
	t.rec = append(t.rec, uint32(v))
	if t.Journal != nil {
		t.Journal(uint32(v))
	}
	return v
}

// Bool draws a boolean that is true with probability num/den.
func (t *Tape) Bool(num, den int) bool { return t.Draw(den) < num }

// Pick draws an index into a list of the given length.
func (t *Tape) Pick(n int) int { return t.Draw(n) }

// Recorded returns the numbers drawn so far (generation) or the tape being
// replayed, truncated to what was actually consumed.
func (t *Tape) Recorded() []uint32 {
	if t.replay {
		n := t.pos
		if n > len(t.rec) {
			n = len(t.rec)
		}
		return append([]uint32(nil), t.rec[:n]...)
	}
	return append([]uint32(nil), t.rec...)
}

// ---------------------------------------------------------------- plan / replay file

// Plan is a run plan: everything needed to re-execute one simulated run
// exactly. It is what a replay file contains.
type Plan struct {
	Property string   `json:"property"`
	Tier     string   `json:"tier"`
	Mode     string   `json:"mode,omitempty"` // sub-workload of the property (e.g. "history", "equals", "enum")
	Seed     uint64   `json:"seed"`
	Tape     []uint32 `json:"tape"`
	// Schedule is the explicit list of context switches (step, task) of a
	// C12 run; empty for single-task properties.
	Schedule [][2]int64 `json:"schedule,omitempty"`
	// RunIndex is the index of the run in its batch (C12 picks its cold-start
	// runs by it).
	RunIndex uint64 `json:"run_index,omitempty"`
	// Entry and Input make a run explicit in terms of bytes handed to one
	// decode entry point (C04: gob encodings are not reproducible from a tape
	// because encoding/gob writes maps in hash order).
	Entry string `json:"entry,omitempty"`
	Input []byte `json:"input,omitempty"`
	// Knobs: the draws that configured the process before an explicit-bytes run (C04: extension
	// hooks installed, DefaultLang set, exported lists grown) – part of what a replay must restore.
	Knobs []uint32 `json:"knobs,omitempty"`
	// Case is a fully explicit case for enumeration tiers (no tape involved).
	Case json.RawMessage `json:"case,omitempty"`
	// History: the runs the same process executed before this one (batch seed, first index,
	// stride). When HistoryOn is set, a replay first re-executes them, silently, in the replaying
	// process: for a violation that depends on what the process has seen before (a table that
	// fills up over thousands of calls), the run alone does not reproduce, the process does.
	HistorySeed   uint64 `json:"history_seed,omitempty"`
	HistoryFrom   uint64 `json:"history_from,omitempty"`
	HistoryStride uint64 `json:"history_stride,omitempty"`
	HistoryOn     bool   `json:"history_on,omitempty"`
	// Expect is filled in by the minimiser: what a replay must reproduce.
	Expect *Expect `json:"expect,omitempty"`
	// Human-readable rendering of the minimised case (not used for replay).
	Rendered any `json:"rendered,omitempty"`
}

type Expect struct {
	Class   string `json:"class"`
	LogHash string `json:"log_hash,omitempty"`
}

// ---------------------------------------------------------------- child protocol

// Violation describes one failed oracle.
type Violation struct {
	Oracle string `json:"oracle"`
	// Class is the signature used for de-duplication, minimisation ("same
	// violation class persists") and known_findings.json.
	Class  string `json:"class"`
	Detail string `json:"detail"`
}

// Record is what the child prints for every run.
type Record struct {
	Seed     uint64         `json:"seed"`
	Mode     string         `json:"mode,omitempty"`
	Steps    int64          `json:"steps"`              // simulated time: executed library statements
	Switches int64          `json:"switches,omitempty"` // context switches
	Ops      int            `json:"ops,omitempty"`
	CaseHash string         `json:"case_hash,omitempty"` // hash identifying the distinct case (rule in evidence)
	Nontriv  bool           `json:"nontrivial,omitempty"`
	LogHash  string         `json:"log_hash,omitempty"`
	Faults   map[string]int `json:"faults,omitempty"`
	Probes   map[string]int `json:"probes,omitempty"`
	Sites    []uint32       `json:"-"`
	// Counts are named histograms summed over a batch (e.g. which catalogue
	// entries were driven); ExtraHashes are members of a second distinct-set
	// (C12: preemption pairs), shipped through the hash side file.
	Counts      map[string]map[string]int `json:"-"`
	ExtraHashes []uint64                  `json:"-"`
	Viol        *Violation                `json:"violation,omitempty"`
	Plan        *Plan                     `json:"plan,omitempty"`   // present on violation and when asked for
	Sample      any                       `json:"sample,omitempty"` // rendered case, present when asked for
}

// Summary is printed by the child once per batch, after the last record.
type Summary struct {
	Summary    bool                      `json:"summary"`
	Runs       int                       `json:"runs"`
	Steps      int64                     `json:"steps"`
	Switches   int64                     `json:"switches"`
	SitesHit   []uint32                  `json:"sites_hit,omitempty"`
	SitesTotal int                       `json:"sites_total,omitempty"`
	Faults     map[string]int            `json:"faults,omitempty"`
	Probes     map[string]int            `json:"probes,omitempty"`
	Extra      map[string]any            `json:"extra,omitempty"`
	Counts     map[string]map[string]int `json:"counts,omitempty"`
}

// ---------------------------------------------------------------- helpers

func Hash64(b []byte) uint64 {
	h := fnv.New64a()
	h.Write(b)
	return h.Sum64()
}

func HashStr(s string) string { return fmt.Sprintf("%016x", Hash64([]byte(s))) }

func AddCounts(dst, src map[string]int) map[string]int {
	if len(src) == 0 {
		return dst
	}
	if dst == nil {
		dst = map[string]int{}
	}
	for k, v := range src {
		if len(k) > 4 && k[:4] == "max_" {
			// a gauge, not a counter
			if v > dst[k] {
				dst[k] = v
			}
			continue
		}
		dst[k] += v
	}
	return dst
}

func SortedKeys[V any](m map[string]V) []string {
	ks := make([]string, 0, len(m))
	for k := range m {
		ks = append(ks, k)
	}
	sort.Strings(ks)
	return ks
}

// ---------------------------------------------------------------- run context

// Ctx is handed to a property's workload for one simulated run.
type Ctx struct {
	Tape  *Tape
	Tier  string
	Mode  string
	Rec   *Record
	Trace []string // rendered operations / events of this run, in order
	// Steps points at the simulator's step counter (simulated time).
	Steps *int64
	// Replay is true when the run re-executes a plan; Schedule then holds the
	// explicit context-switch list to follow (C12). In generation mode the
	// workload stores the schedule it recorded in Schedule before returning.
	Replay   bool
	Schedule [][2]int64
	// Verbose asks for the full trace in the record (replay, samples).
	Verbose bool
	// RunIndex is the index of the run in its batch.
	RunIndex uint64
	// Entry / Input: explicit bytes for one decode entry point (C04 replay).
	Entry string
	Input []byte
	Knobs []uint32
	// PlanOut, if set by the workload, replaces the tape-based plan in the
	// violation record.
	PlanOut *Plan
}

// Fail records a violation; only the first one of a run is kept (the run
// stops being meaningful after it).
func (c *Ctx) Fail(oracle, class, format string, a ...any) {
	if c.Rec.Viol != nil {
		return
	}
	c.Rec.Viol = &Violation{Oracle: oracle, Class: class, Detail: fmt.Sprintf(format, a...)}
}

func (c *Ctx) Failed() bool { return c.Rec.Viol != nil }

func (c *Ctx) Probe(name string) {
	if c.Rec.Probes == nil {
		c.Rec.Probes = map[string]int{}
	}
	c.Rec.Probes[name]++
}

func (c *Ctx) Fault(kind string) {
	if c.Rec.Faults == nil {
		c.Rec.Faults = map[string]int{}
	}
	c.Rec.Faults[kind]++
}

// Count adds to a named histogram of the batch.
func (c *Ctx) Count(hist, key string) {
	if c.Rec.Counts == nil {
		c.Rec.Counts = map[string]map[string]int{}
	}
	if c.Rec.Counts[hist] == nil {
		c.Rec.Counts[hist] = map[string]int{}
	}
	c.Rec.Counts[hist][key]++
}

func (c *Ctx) Logf(format string, a ...any) {
	c.Trace = append(c.Trace, fmt.Sprintf(format, a...))
}

// Now returns simulated time.
func (c *Ctx) Now() int64 {
	if c.Steps == nil {
		return 0
	}
	return *c.Steps
}

// Prop is one property's workload + oracle.
type Prop struct {
	ID string
	// Modes lists the sub-workloads run in the seeded tiers, with weights.
	Modes []ModeSpec
	// Run executes one seeded run.
	Run func(c *Ctx)
	// Enum, if set, enumerates the exhaustive space of shard i of n, calling
	// emit for each violation / sample, and returns a summary.
	Enum func(e *EnumCtx)
}

type ModeSpec struct {
	Name   string
	Weight int
}

// EnumCtx is handed to a property's exhaustive enumerator.
type EnumCtx struct {
	Tier     string
	Shard    int
	Shards   int
	Steps    *int64
	OnlyCase json.RawMessage // replay of one explicit case
	Emit     func(r *Record) // violations and samples
	Begin    func(group string)
	Sum      *Summary
	Hashes   func(h uint64, nontrivial bool) // distinct-case accounting
	// Expired reports that the batch's wall-clock budget is used up: the
	// enumerator stops between cases and says so in its summary.
	Expired func() bool
	// FromGroup: groups (corpus items) with a smaller index were enumerated by an earlier process
	// of this shard, which asked for a fresh one (Summary.Extra["restart_from_group"]).
	FromGroup int
}

var Registry = map[string]*Prop{}

func Register(p *Prop) { Registry[p.ID] = p }

// PickMode chooses the mode of run k deterministically from the weights.
func (p *Prop) PickMode(k uint64) string {
	total := 0
	for _, m := range p.Modes {
		total += m.Weight
	}
	if total == 0 {
		return ""
	}
	x := int(k % uint64(total))
	for _, m := range p.Modes {
		if x < m.Weight {
			return m.Name
		}
		x -= m.Weight
	}
	return p.Modes[0].Name
}

// JournalFile, when non-nil, receives "S <step> <task>" lines from the
// scheduler as switches happen (unbuffered), next to the tape journal.
var JournalFile interface{ Write([]byte) (int, error) }
