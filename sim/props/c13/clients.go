package c13

import (
	"fmt"
	"strings"
	"sync"

	ap "github.com/go-ap/activitypub"
	"github.com/go-ap/activitypub/verifsim"

	"verif.local/sim/core"
	"verif.local/sim/sched"
	"verif.local/sim/simrt"
)

// Mode "clients": two or three clients, each with a collection, a pool and a
// history of its own, run as tasks under the seeded scheduler (sim/sched; the
// same one C12 uses). Nothing is shared between the clients – no item, no
// list, no id object – so the property holds for each of them exactly as in
// a sequential history: after every step of a client its collection equals
// its own reference set, wherever the scheduler switched. What this mode adds
// over the sequential histories is package-level state inside the library
// (a memo, a scratch buffer, a lazily built table): with one caller such
// state is invisible, with two it makes one client's Contains answer for the
// other client's item. The schedule is a function of the tape (a random walk
// whose seed and switch rate are drawn from it), so a run replays from its
// tape alone.

type clientOp struct {
	code int // 0 Append(p) 1 Append(p,q,p) 2 Remove(p) 3 Remove(nil) 4 inspect
	p, q int
	via  bool
}

type client struct {
	id   int
	kind int
	ct   *container
	m    *model
	pool []poolItem
	ops  []clientOp
}

var (
	curSched *sched.S
)

//go:norace
func clientsHook(site uint32) {
	if s := curSched; s != nil {
		s.Yield(site)
	} else {
		simrt.Hook(site)
	}
}

//go:norace
func clientsBlocked() {
	if s := curSched; s != nil {
		s.Blocked()
	} else {
		simrt.Blocked()
	}
}

func runClients(c *core.Ctx) {
	t := c.Tape
	n := 2 + t.Draw(2)
	clients := make([]*client, n)
	maxOps := 6
	if c.Tier == "thorough" {
		maxOps = 16
	}
	sameKind := t.Bool(1, 2)
	// the clients talk about the same actors and objects half of the time (two request handlers
	// working on the followers of the same account): equal ids, but no shared memory
	samePool := t.Bool(1, 2)
	var poolSeg []uint32
	var poolN int
	var poolRich bool
	kind0 := t.Draw(len(kindNames))
	for i := range clients {
		cl := &client{id: i, kind: kind0, m: &model{}}
		if !sameKind {
			cl.kind = t.Draw(len(kindNames))
		}
		nPool := 3 + t.Draw(4)
		switch {
		case samePool && i == 0:
			poolRich = t.Bool(1, 3)
			pos0 := len(t.Recorded())
			cl.pool = makePool(t, nPool, poolRich)
			poolSeg, poolN = t.Recorded()[pos0:], nPool
		case samePool:
			// the same ids in objects of their own (the pool is generated again from the same draws)
			nPool = poolN
			cl.pool = makePool(core.ReplayTape(poolSeg), nPool, poolRich)
		default:
			cl.pool = makePool(t, nPool, t.Bool(1, 3))
		}
		var initial []ap.Item
		if t.Bool(1, 2) {
			k := 1 + t.Draw(nPool)
			for j := 0; j < k && j < 3; j++ {
				initial = append(initial, cl.pool[j].it)
				cl.m.add(cl.pool[j].id)
			}
		}
		cl.ct = newContainer(cl.kind, initial, t.Draw(3), uint(t.Draw(4)))
		for j, nOps := 0, 1+t.Draw(maxOps); j < nOps; j++ {
			op := clientOp{p: t.Draw(nPool), q: t.Draw(nPool), via: cl.kind != 1 && t.Bool(1, 3)}
			switch d := t.Draw(8); {
			case d <= 2:
				op.code = 0
			case d == 3:
				op.code = 1
			case d <= 5:
				op.code = 2
			case d == 6:
				op.code = 3
			default:
				op.code = 4
			}
			if cl.kind == 1 && (op.code == 2 || op.code == 3) {
				op.code = 4 // IRI lists have no item-list view
			}
			cl.ops = append(cl.ops, op)
		}
		clients[i] = cl
		c.Logf("client %d: %s init=%s pool=%s, %d operations", i, kindNames[cl.kind], shorts(cl.m.ids), poolDesc(cl.pool), len(cl.ops))
	}
	cfg := sched.Config{Tasks: n, Seed: uint64(t.Draw(1<<30)) + 1, Policy: sched.PolicyRandomWalk, Denom: []int{32, 128, 512, 2048}[t.Draw(4)], JournalFd: -1}
	s, err := sched.New(cfg)
	if err != nil {
		c.Fail("harness", "C13/harness/pipe", "%v", err)
		return
	}
	defer s.Close()
	oldHook, oldBlocked := verifsim.Hook, verifsim.BlockedHook
	verifsim.Hook, verifsim.BlockedHook = clientsHook, clientsBlocked
	curSched = s
	var wg sync.WaitGroup
	for _, cl := range clients {
		wg.Add(1)
		go clientMain(c, s, cl, &wg)
	}
	s.Start()
	wg.Wait()
	curSched = nil
	verifsim.Hook, verifsim.BlockedHook = oldHook, oldBlocked
	simrt.Steps += s.Step()
	c.Rec.Switches = int64(len(s.Switches))
	c.Probe("clients_run")
	if s.SwitchInsideOp > 0 {
		c.Probe("switch_inside_a_client_operation")
	}
	var sb strings.Builder
	for _, sw := range s.Switches {
		fmt.Fprintf(&sb, "%d>%d@%d;", sw.From, sw.To, sw.Site)
	}
	c.Rec.Nontriv = s.SwitchInsideOp > 0
	c.Rec.CaseHash = core.HashStr(strings.Join(c.Trace, ";") + sb.String())
}

func clientMain(c *core.Ctx, s *sched.S, cl *client, wg *sync.WaitGroup) {
	defer wg.Done()
	s.Enter(cl.id)
	defer s.Exit(cl.id)
	defer func() {
		if r := recover(); r != nil {
			if _, dead := r.(sched.DeadlockPanic); dead {
				c.Fail("deadlock", "C13/clients/deadlock", "every client is blocked on a lock another parked client holds")
				return
			}
			frame, kind := simrt.PanicSite(r)
			c.Fail("panic", "C13/"+kindNames[cl.kind]+"/panic", "client %d: %s/%s: %v", cl.id, frame, kind, r)
		}
	}()
	tag := fmt.Sprintf("client %d: ", cl.id)
	verify(c, cl.ct, cl.m, cl.pool, false, "init")
	for oi, op := range cl.ops {
		if c.Failed() {
			return
		}
		c.Rec.Ops++
		s.OpBegin(cl.id, uint32(oi))
		p, q := cl.pool[op.p], cl.pool[op.q]
		var step string
		switch op.code {
		case 0:
			step = fmt.Sprintf("Append(%s %s)", p.shape, short(p.id))
			if op.via {
				_ = cl.ct.viaIntf(func(ci ap.CollectionInterface) { _ = ci.Append(p.it) })
			} else {
				_ = cl.ct.app(p.it)
			}
			cl.m.add(p.id)
		case 1:
			step = fmt.Sprintf("Append(%s,%s,%s)", short(p.id), short(q.id), short(p.id))
			if op.via {
				_ = cl.ct.viaIntf(func(ci ap.CollectionInterface) { _ = ci.Append(p.it, q.it, p.it) })
			} else {
				_ = cl.ct.app(p.it, q.it, p.it)
			}
			cl.m.add(p.id)
			cl.m.add(q.id)
		case 2:
			step = fmt.Sprintf("Remove(%s %s)", p.shape, short(p.id))
			if err := cl.ct.remove(p.it); err != nil {
				c.Fail("model", "C13/"+kindNames[cl.kind]+"/Remove/view-error", "client %d: item-list view refused: %v", cl.id, err)
			}
			cl.m.del(p.id)
		case 3:
			step = "Remove(nil)"
			_ = cl.ct.remove(nil)
		default:
			step = "Contains"
		}
		c.Logf("%s%s via=%v", tag, step, op.via)
		verify(c, cl.ct, cl.m, cl.pool, op.via, step)
		s.OpEnd(cl.id, uint32(oi), 0)
	}
}
