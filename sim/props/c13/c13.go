// Package c13 checks property C13: every collection kind is an
// insertion-ordered set under Append / Contains / Remove (DESIGN.md §5.1).
//
// Workload: seeded (and, in the thorough tier, bounded-exhaustive) histories
// of calls on the six collection kinds, driven through their own methods,
// through CollectionInterface (OnCollectionIntf) and, for Remove, through the
// item-list view (OnItemCollection). Oracle: after every step the contents
// equal those of a reference insertion-ordered set driven by the same calls.
package c13

import (
	"encoding/json"
	"fmt"
	"reflect"
	"strings"

	ap "github.com/go-ap/activitypub"

	"verif.local/sim/core"
	"verif.local/sim/gen"
)

func init() {
	core.Register(&core.Prop{
		ID:    "C13",
		Modes: []core.ModeSpec{{Name: "history", Weight: 23}, {Name: "clients", Weight: 1}},
		Run:   run,
		Enum:  enum,
	})
}

var kindNames = []string{"ItemCollection", "IRIs", "Collection", "OrderedCollection", "CollectionPage", "OrderedCollectionPage"}

// container wraps one collection under test.
type container struct {
	kind int
	item ap.Item // pointer form handed to the helper functions
	// direct method set
	app      func(...ap.Item) error
	contains func(ap.Item) bool
	count    func() uint
	coll     func() ap.ItemCollection
	// bystanders: other lists of the same decoded object; no call is ever made on them
	bystanders   []*ap.ItemCollection
	bystanderIDs [][]string
	bystanderOf  []string
}

// newDecodedContainer: the item list under test is the "to" list of an object that came out of a
// decoder (JSON or gob), with the object's other addressing lists as bystanders. A decoder may lay
// out what it returns as it likes – but each list it returns is a set of its own.
func newDecodedContainer(t *core.Tape, initial []ap.Item) *container {
	ids := func(n int, ns string) []string {
		out := make([]string, n)
		for i := range out {
			out[i] = fmt.Sprintf("https://bystander.example/%s/%d", ns, i+1)
		}
		return out
	}
	to := make([]string, len(initial))
	for i, it := range initial {
		to[i] = string(it.GetLink())
	}
	names := []string{"cc", "bto", "bcc", "audience"}
	lists := map[string][]string{"to": to}
	for _, nm := range names {
		if t.Bool(2, 3) {
			lists[nm] = ids(1+t.Draw(3), nm)
		}
	}
	var ob *ap.Object
	if t.Bool(1, 2) {
		doc := map[string]any{"id": "https://example.com/decoded/1", "type": "Note"}
		for k, v := range lists {
			if len(v) > 0 {
				doc[k] = v
			}
		}
		raw, _ := json.Marshal(doc)
		it, err := ap.UnmarshalJSON(raw)
		if err != nil {
			return nil
		}
		ob, _ = it.(*ap.Object)
	} else {
		src := &ap.Object{ID: "https://example.com/decoded/1", Type: ap.NoteType}
		mk := func(v []string) ap.ItemCollection {
			var l ap.ItemCollection
			for _, id := range v {
				l = append(l, ap.IRI(id))
			}
			return l
		}
		src.To, src.CC, src.Bto, src.BCC, src.Audience = mk(lists["to"]), mk(lists["cc"]), mk(lists["bto"]), mk(lists["bcc"]), mk(lists["audience"])
		raw, err := src.GobEncode()
		if err != nil {
			return nil
		}
		ob = new(ap.Object)
		if err := ob.GobDecode(raw); err != nil {
			return nil
		}
	}
	if ob == nil {
		return nil
	}
	c := &container{kind: 0}
	p := &ob.To
	c.item, c.app, c.contains, c.count, c.coll = p, p.Append, func(x ap.Item) bool { return p.Contains(x) }, p.Count, p.Collection
	for _, nm := range names {
		if len(lists[nm]) == 0 {
			continue
		}
		var l *ap.ItemCollection
		switch nm {
		case "cc":
			l = &ob.CC
		case "bto":
			l = &ob.Bto
		case "bcc":
			l = &ob.BCC
		default:
			l = &ob.Audience
		}
		c.bystanders, c.bystanderIDs, c.bystanderOf = append(c.bystanders, l), append(c.bystanderIDs, lists[nm]), append(c.bystanderOf, nm)
	}
	return c
}

func newContainer(kind int, initial []ap.Item, spare int, total uint) *container {
	c := &container{kind: kind}
	mk := func() ap.ItemCollection {
		if initial == nil && spare == 0 {
			return nil
		}
		col := make(ap.ItemCollection, 0, len(initial)+spare)
		col = append(col, initial...)
		full := col[:cap(col)]
		for i := len(initial); i < len(full); i++ {
			full[i] = ap.IRI("https://spare.example/SENTINEL")
		}
		return col
	}
	switch kind {
	case 0:
		v := mk()
		p := &v
		c.item, c.app, c.contains, c.count, c.coll = p, p.Append, func(x ap.Item) bool { return p.Contains(x) }, p.Count, p.Collection
	case 1:
		var v ap.IRIs
		if initial != nil || spare > 0 {
			v = make(ap.IRIs, 0, len(initial)+spare)
			for _, it := range initial {
				v = append(v, it.GetLink())
			}
			full := v[:cap(v)]
			for i := len(initial); i < len(full); i++ {
				full[i] = "https://spare.example/SENTINEL"
			}
		}
		p := &v
		c.item, c.app, c.contains, c.count, c.coll = p, p.Append, func(x ap.Item) bool { return p.Contains(x) }, p.Count, p.Collection
	case 2:
		p := &ap.Collection{ID: "https://example.com/col", Type: ap.CollectionType, Items: mk(), TotalItems: total}
		c.item, c.app, c.contains, c.count, c.coll = p, p.Append, func(x ap.Item) bool { return p.Contains(x) }, p.Count, func() ap.ItemCollection { return p.Collection() }
	case 3:
		p := &ap.OrderedCollection{ID: "https://example.com/ocol", Type: ap.OrderedCollectionType, OrderedItems: mk(), TotalItems: total}
		c.item, c.app, c.contains, c.count, c.coll = p, p.Append, func(x ap.Item) bool { return p.Contains(x) }, p.Count, func() ap.ItemCollection { return p.Collection() }
	case 4:
		p := &ap.CollectionPage{ID: "https://example.com/col?page=1", Type: ap.CollectionPageType, Items: mk(), TotalItems: total}
		c.item, c.app, c.contains, c.count, c.coll = p, p.Append, func(x ap.Item) bool { return p.Contains(x) }, p.Count, func() ap.ItemCollection { return p.Collection() }
	case 5:
		// (StartIndex, like TotalItems, describes the logical collection: it must not influence membership)
		p := &ap.OrderedCollectionPage{ID: "https://example.com/ocol?page=1", Type: ap.OrderedCollectionPageType, OrderedItems: mk(), TotalItems: total, StartIndex: total / 2}
		c.item, c.app, c.contains, c.count, c.coll = p, p.Append, func(x ap.Item) bool { return p.Contains(x) }, p.Count, func() ap.ItemCollection { return p.Collection() }
	}
	return c
}

// withPaging fills the paging properties of a collection under test: first / current / last (and,
// on a page, partOf / next / prev) as ids or as embedded pages that hold members of their own –
// among them items of the pool. What a page of the collection holds is not what the collection
// holds: the set under test is the collection's own item list.
func (c *container) withPaging(t *core.Tape, pool []poolItem) string {
	page := func() ap.Item {
		if t.Bool(1, 3) {
			return ap.IRI("https://example.com/col?page=" + fmt.Sprint(1+t.Draw(3)))
		}
		items := ap.ItemCollection{}
		for i, n := 0, 1+t.Draw(3); i < n; i++ {
			items = append(items, pool[t.Draw(len(pool))].it)
		}
		if t.Bool(1, 2) {
			return &ap.OrderedCollectionPage{ID: "https://example.com/col?page=1", Type: ap.OrderedCollectionPageType, OrderedItems: items, TotalItems: uint(len(items))}
		}
		return &ap.CollectionPage{ID: "https://example.com/col?page=1", Type: ap.CollectionPageType, Items: items, TotalItems: uint(len(items))}
	}
	switch p := c.item.(type) {
	case *ap.Collection:
		p.First, p.Current, p.Last = page(), page(), page()
	case *ap.OrderedCollection:
		p.First, p.Current, p.Last = page(), page(), page()
	case *ap.CollectionPage:
		p.First, p.Current, p.Last, p.PartOf, p.Next, p.Prev = page(), page(), page(), page(), page(), page()
	case *ap.OrderedCollectionPage:
		p.First, p.Current, p.Last, p.PartOf, p.Next, p.Prev = page(), page(), page(), page(), page(), page()
	default:
		return ""
	}
	return "paging properties set"
}

// viaIntf runs fn on the container's CollectionInterface as OnCollectionIntf
// presents it.
func (c *container) viaIntf(fn func(ci ap.CollectionInterface)) error {
	return ap.OnCollectionIntf(c.item, func(ci ap.CollectionInterface) error {
		fn(ci)
		return nil
	})
}

// remove goes through the item-list view, as the property states.
func (c *container) remove(x ap.Item) error {
	return ap.OnItemCollection(c.item, func(col *ap.ItemCollection) error {
		col.Remove(x)
		return nil
	})
}

// unicodeSiblings: pairs of texts of equal length whose UTF-8 encodings differ only in bit 5 of one or
// two bytes – the bit an ASCII-only case fold flips – and that are different letters, not case variants.
var unicodeSiblings = [][2]string{{"たえ", "みと"}, {"张", "开"}}

type poolItem struct {
	it    ap.Item
	id    string
	shape string
}

func idsOf(col ap.ItemCollection) []string {
	out := make([]string, len(col))
	for i, it := range col {
		if it == nil {
			out[i] = "<nil>"
			continue
		}
		out[i] = string(it.GetLink())
	}
	return out
}

// model is the reference insertion-ordered set.
type model struct{ ids []string }

func (m *model) has(id string) bool {
	for _, x := range m.ids {
		if x == id {
			return true
		}
	}
	return false
}
func (m *model) add(id string) {
	if !m.has(id) {
		m.ids = append(m.ids, id)
	}
}
func (m *model) del(id string) {
	for i, x := range m.ids {
		if x == id {
			m.ids = append(m.ids[:i:i], m.ids[i+1:]...)
			return
		}
	}
}

func short(id string) string {
	if i := strings.LastIndex(id, "/"); i >= 0 {
		return id[i+1:]
	}
	return id
}

func shorts(ids []string) string {
	s := make([]string, len(ids))
	for i, x := range ids {
		s[i] = short(x)
	}
	return "[" + strings.Join(s, " ") + "]"
}

// makePool builds items with pairwise distinct ids in the shapes the property
// names: IRI, object, actor, activity (pointer and value forms).
func makePool(t *core.Tape, n int, rich bool) []poolItem {
	k := gen.Knobs{MaxDepth: 2, FieldP: 3, SpareCap: false, Links: false, IDless: true, ValueForms: false, MaxList: 2, Budget: 6}
	if rich {
		k.FieldP = 3 + t.Draw(6)
		k.SpareCap = t.Bool(1, 2)
		k.MaxDepth = 1 + t.Draw(3)
	} else {
		k.FieldP = 0
	}
	g := gen.New(t, k)
	pool := make([]poolItem, 0, n)
	pendingSibling := ""
	for i := 0; i < n; i++ {
		var it ap.Item
		shape := ""
		switch t.Draw(9) {
		case 7, 8:
			// any other object type of the vocabulary (question, place, profile, relationship,
			// tombstone, intransitive activity, collections as members), pointer or value form
			k := &gen.Kinds[t.Draw(len(gen.Kinds))]
			p := g.Struct(k, 1, false)
			if t.Bool(1, 3) {
				it, shape = p.Elem().Interface().(ap.Item), k.Name
			} else {
				it, shape = p.Interface().(ap.Item), "*"+k.Name
			}
		case 0:
			it, shape = g.IRI(), "IRI"
		case 1:
			it, shape = g.Struct(gen.KindByName("Object"), 1, false).Interface().(ap.Item), "*Object"
		case 2:
			it, shape = g.Struct(gen.KindByName("Actor"), 1, false).Interface().(ap.Item), "*Actor"
		case 3:
			it, shape = g.Struct(gen.KindByName("Activity"), 1, false).Interface().(ap.Item), "*Activity"
		case 4:
			it, shape = g.Struct(gen.KindByName("Object"), 1, false).Elem().Interface().(ap.Item), "Object"
		case 5:
			it, shape = g.Struct(gen.KindByName("Actor"), 1, false).Elem().Interface().(ap.Item), "Actor"
		case 6:
			it, shape = g.Struct(gen.KindByName("Activity"), 1, false).Elem().Interface().(ap.Item), "Activity"
		}
		// near-duplicate ids: distinct identities that differ from an earlier pool id only in a
		// part IRI equality must respect - the query string, the port, one more path segment
		if i > 0 && t.Bool(1, 4) {
			base := pool[t.Draw(len(pool))].id
			if j := strings.IndexAny(base, "?#"); j >= 0 {
				base = base[:j]
			}
			variant := ""
			switch t.Draw(6) {
			case 5:
				// the scheme's default port spelled out: another host:port as far as IRI equality goes
				if k := strings.Index(base, "://"); k > 0 {
					rest := base[k+3:]
					if sl := strings.Index(rest, "/"); sl > 0 && !strings.Contains(rest[:sl], ":") {
						port := ":443"
						if base[:k] == "http" {
							port = ":80"
						}
						variant = base[:k+3] + rest[:sl] + port + rest[sl:]
					}
				}
			case 4:
				// repeated query key: the multiset of values matters, not just the first one
				variant = base + "?tag=go&tag=" + fmt.Sprint(10+i)
			case 0:
				variant = base + "?page=" + fmt.Sprint(10+i)
			case 1:
				variant = base + "/" + fmt.Sprint(100+i)
			case 2:
				variant = base + "?first=" + fmt.Sprint(10+i) + "&page=1"
			default:
				// another port on the same host
				if k := strings.Index(base, "://"); k > 0 {
					rest := base[k+3:]
					if sl := strings.Index(rest, "/"); sl > 0 && !strings.Contains(rest[:sl], ":") {
						variant = base[:k+3] + rest[:sl] + ":" + fmt.Sprint(9000+i) + rest[sl:]
					}
				}
			}
			for _, q := range pool {
				if q.id == variant {
					variant = "" // (the pool's ids stay pairwise distinct)
				}
			}
			if variant != "" {
				it = withID(it, ap.IRI(variant))
				shape += "~"
			}
		}
		// internationalised ids: two ids whose UTF-8 encodings differ in one bit of one byte (and that
		// are not case variants of each other) are two identities. The sibling of an id introduced here
		// becomes the id of the next pool item.
		if pendingSibling != "" {
			it = withID(it, ap.IRI(pendingSibling))
			shape += "~u"
			pendingSibling = ""
		} else if i+1 < n && t.Bool(1, 10) {
			pair := unicodeSiblings[t.Draw(len(unicodeSiblings))]
			base := fmt.Sprintf("https://social.example.org/users/%d/", 500+i)
			it = withID(it, ap.IRI(base+pair[0]))
			pendingSibling = base + pair[1]
			shape += "~u"
		}
		// a long reply thread embedded in the item (a dereferenced inReplyTo chain): the item is still
		// one member with one identity
		if rich && t.Bool(1, 14) {
			if ob, ok := it.(*ap.Object); ok {
				var inner ap.Item = ap.IRI(fmt.Sprintf("https://example.com/thread/%d/root", i))
				for d, depth := 0, 33+t.Draw(12); d < depth; d++ {
					inner = &ap.Object{ID: ap.IRI(fmt.Sprintf("https://example.com/thread/%d/%d", i, d)), Type: ap.NoteType, InReplyTo: inner}
				}
				ob.InReplyTo = inner
				shape += "+thread"
			}
		}
		// a conversation linked both ways in memory: the note holds its replies, a reply points back at
		// the note (a cycle of pointers, as an application that has dereferenced a thread holds it)
		if rich && t.Bool(1, 20) {
			if ob, ok := it.(*ap.Object); ok && ob.Replies == nil {
				reply := &ap.Object{ID: ap.IRI(fmt.Sprintf("https://example.com/thread/%d/reply", i)), Type: ap.NoteType, InReplyTo: ob}
				ob.Replies = &ap.Collection{ID: ap.IRI(fmt.Sprintf("https://example.com/thread/%d/replies", i)), Type: ap.CollectionType, Items: ap.ItemCollection{reply}, TotalItems: 1}
				shape += "+cycle"
			}
		}
		// ids that are not URLs: urn:, did:, acct:, tag:, mailto: name things in the fediverse too. They
		// have no host and no path for an IRI comparison to look at – only their text – and two of
		// them are still two identities
		if t.Bool(1, 8) {
			n := fmt.Sprint(1000 + 7*i)
			opaque := []string{"urn:uuid:6ba7b810-9dad-11d1-80b4-00c04fd4" + n, "did:key:z6MkhaXgBZDvotDkL5257faiztiGiC2QtKLGpbn" + n, "acct:user" + n + "@social.example.org",
				"tag:social.example.org,2024:objectId=" + n + ":objectType=Status", "mailto:user" + n + "@example.com", "did:web:example.com:users:" + n}[t.Draw(6)]
			taken := false
			for _, q := range pool {
				if q.id == opaque {
					taken = true
				}
			}
			if !taken {
				it = withID(it, ap.IRI(opaque))
				shape += "^"
			}
		}
		// members without an id inside a list property: what every Mastodon note carries (hashtags,
		// mentions, emoji under "tag"; property/value pairs under "attachment"). The item itself has
		// its identity; what it holds must not keep it from being found again
		if rich && t.Bool(1, 6) {
			if rv := reflect.ValueOf(it); rv.Kind() == reflect.Pointer && rv.Elem().Kind() == reflect.Struct {
				for _, fn := range []string{"Tag", "Attachment"}[t.Draw(2):] {
					if f := rv.Elem().FieldByName(fn); f.IsValid() && f.CanSet() && f.Type() == reflect.TypeOf(ap.ItemCollection(nil)) {
						l := ap.ItemCollection{&ap.Object{Type: ap.ObjectType, Name: ap.DefaultNaturalLanguageValue("#tag" + fmt.Sprint(i))}}
						if t.Bool(1, 2) {
							l = append(l, &ap.Object{Type: ap.NoteType, Content: ap.DefaultNaturalLanguageValue("value")})
						}
						if t.Bool(1, 2) {
							// a mention and a hashtag as every Mastodon note carries them: links, without an id
							l = append(l, &ap.Link{Type: ap.MentionType, Href: ap.IRI(fmt.Sprintf("https://social.example.org/users/%d", 40+i)), Name: ap.DefaultNaturalLanguageValue("@someone")})
							if t.Bool(1, 2) {
								l = append(l, ap.Link{Type: ap.LinkType, Href: "https://social.example.org/tags/go", Name: ap.DefaultNaturalLanguageValue("#go")})
							}
						}
						f.Set(reflect.ValueOf(l))
						shape += "+idless-members"
						break
					}
				}
			}
		}
		pool = append(pool, poolItem{it: it, id: string(it.GetLink()), shape: shape})
	}
	return pool
}

// withID returns the item with another id (same shape, same form).
func withID(it ap.Item, id ap.IRI) ap.Item {
	if _, ok := it.(ap.IRI); ok {
		return id
	}
	rv := reflect.ValueOf(it)
	if rv.Kind() == reflect.Pointer {
		if f := rv.Elem().FieldByName("ID"); f.IsValid() && f.CanSet() {
			f.Set(reflect.ValueOf(id))
		}
		return it
	}
	cp := reflect.New(rv.Type()).Elem()
	cp.Set(rv)
	if f := cp.FieldByName("ID"); f.IsValid() && f.CanSet() {
		f.Set(reflect.ValueOf(id))
	}
	return cp.Interface().(ap.Item)
}

// verify evaluates the cross-invariants after a step.
func verify(c *core.Ctx, ct *container, m *model, pool []poolItem, viaIntf bool, step string) {
	kn := kindNames[ct.kind]
	var got ap.ItemCollection
	var cnt uint
	if viaIntf {
		if err := ct.viaIntf(func(ci ap.CollectionInterface) { got, cnt = ci.Collection(), ci.Count() }); err != nil {
			c.Fail("model", "C13/"+kn+"/OnCollectionIntf/error", "after %s: OnCollectionIntf returned %v", step, err)
			return
		}
	} else {
		got, cnt = ct.coll(), ct.count()
	}
	for bi, b := range ct.bystanders {
		if bids := idsOf(*b); strings.Join(bids, "\x00") != strings.Join(ct.bystanderIDs[bi], "\x00") {
			c.Fail("model", "C13/"+kn+"/bystander-list-changed", "after %s on the \"to\" list of a decoded object its %q list, on which no call was made, holds %s instead of %s", step, ct.bystanderOf[bi], shorts(bids), shorts(ct.bystanderIDs[bi]))
			return
		}
	}
	gids := idsOf(got)
	if strings.Join(gids, "\x00") != strings.Join(m.ids, "\x00") {
		c.Fail("model", "C13/"+kn+"/"+stepKind(step)+"/contents", "after %s the %s holds %s, the insertion-ordered set holds %s", step, kn, shorts(gids), shorts(m.ids))
		return
	}
	if cnt != uint(len(m.ids)) {
		c.Fail("model", "C13/"+kn+"/"+stepKind(step)+"/count", "after %s Count() = %d, the set has %d members %s", step, cnt, len(m.ids), shorts(m.ids))
		return
	}
	for _, p := range pool {
		var has bool
		if viaIntf {
			_ = ct.viaIntf(func(ci ap.CollectionInterface) { has = ci.Contains(p.it) })
		} else {
			has = ct.contains(p.it)
		}
		if has != m.has(p.id) {
			c.Fail("model", "C13/"+kn+"/"+stepKind(step)+"/contains", "after %s Contains(%s %s) = %v, the set %s says %v", step, p.shape, short(p.id), has, shorts(m.ids), m.has(p.id))
			return
		}
	}
}

func stepKind(step string) string {
	if i := strings.Index(step, "("); i > 0 {
		return step[:i]
	}
	return step
}

func run(c *core.Ctx) {
	if c.Mode == "clients" {
		runClients(c)
		return
	}
	t := c.Tape
	kind := t.Draw(len(kindNames))
	nPool := 3 + t.Draw(6)
	rich := t.Bool(3, 4)
	// 1 run in 40 is a "big" run: a pool of 20..80 items, up to 64 initial members and a history of
	// up to 150 calls, so that a collection grows past any small threshold (8, 16, 32, 64 members)
	// at which an implementation might switch to another representation or strategy
	big := t.Bool(1, 40)
	if big {
		nPool, rich = 20+t.Draw(61), false
		c.Probe("big_run")
	}
	pool := makePool(t, nPool, rich)
	// initial contents: nil, or a literal prefix of the pool; spare capacity knob
	var initial []ap.Item
	m := &model{}
	if t.Bool(1, 2) {
		k := 1 + t.Draw(nPool)
		maxInit := 4
		if big {
			maxInit = 64
		}
		for i := 0; i < k && i < maxInit; i++ {
			initial = append(initial, pool[i].it)
			m.add(pool[i].id)
		}
	}
	thousand := false
	if big && t.Bool(1, 6) {
		// a busy inbox: 1030..2100 earlier members (plain ids) before the pool's items
		nf := []int{1030, 1537, 2100}[t.Draw(3)]
		filler := make([]ap.Item, 0, nf+len(initial))
		ids := make([]string, 0, nf+len(initial))
		for i := 0; i < nf; i++ {
			id := fmt.Sprintf("https://inbox.example/activities/%d", i)
			filler = append(filler, ap.IRI(id))
			ids = append(ids, id)
		}
		initial = append(filler, initial...)
		m.ids = append(ids, m.ids...)
		c.Probe("thousand_member_run")
		thousand = true
	}
	spare := 0
	if t.Bool(1, 2) {
		spare = 1 + t.Draw(3)
		c.Probe("spare_capacity_init")
	}
	intfMode := t.Draw(3) // 0 direct methods, 1 through OnCollectionIntf, 2 mixed per op
	if kind == 1 && intfMode != 0 {
		// OnCollectionIntf presents an IRI list as a converted copy (documented on
		// ToItemCollection / OnCollectionIntf): writes through it are not part of the history
		intfMode = 0
	}
	// TotalItems is a declared size of the logical collection, not the member count: any value is legal
	total := uint(0)
	if t.Bool(1, 2) {
		total = uint(t.Draw(12))
		c.Probe("total_items_set")
	}
	ct := newContainer(kind, initial, spare, total)
	if kind == 0 && t.Bool(1, 5) {
		if dc := newDecodedContainer(t, initial); dc != nil {
			ct = dc
			// the history starts from what the decoder returned (what a decoder makes of a document is
			// C05's subject: the JSON decoder, for one, drops list members whose id is not a URL)
			m.ids = idsOf(ct.coll())
			for bi, b := range ct.bystanders {
				ct.bystanderIDs[bi] = idsOf(*b)
			}
			c.Probe("list_of_a_decoded_object")
			c.Logf("the list is the \"to\" list of a decoded object with bystander lists %v", dc.bystanderOf)
		}
	}
	if kind >= 2 && t.Bool(1, 4) {
		if d := ct.withPaging(t, pool); d != "" {
			c.Probe("paging_properties_set")
			c.Logf("%s", d)
		}
	}
	c.Logf("%s init=%s spare=%d totalItems=%d access=%d pool=%s", kindNames[kind], shorts(m.ids), spare, total, intfMode, poolDesc(pool))
	verify(c, ct, m, pool, false, "init")
	maxOps := 14
	if c.Tier == "thorough" {
		maxOps = 40
	}
	if big {
		maxOps = 150
	}
	if thousand {
		maxOps = 20
	}
	nOps := 1 + t.Draw(maxOps)
	changes := 0
	vpool := pool
	for i := 0; i < nOps && !c.Failed(); i++ {
		c.Rec.Ops++
		if big {
			// membership is asked for eight drawn pool items per step (contents and Count are compared
			// in full every time) and for the whole pool every 16th step and at the end
			vpool = pool
			if i%16 != 15 && i != nOps-1 {
				vpool = make([]poolItem, 8)
				for j := range vpool {
					vpool[j] = pool[t.Draw(nPool)]
				}
			}
		}
		via := intfMode == 1 || (intfMode == 2 && t.Bool(1, 2))
		op := t.Draw(8)
		if t.Bool(1, 48) {
			// Append of a whole batch (16..40 arguments, repeats among them), from a buffer the caller
			// owns and reuses afterwards: the collection keeps the items, not the caller's buffer
			k := 16 + t.Draw(25)
			buf := make([]ap.Item, k, k+t.Draw(3))
			ids := make([]string, k)
			for j := range buf {
				p := pool[t.Draw(nPool)]
				buf[j], ids[j] = p.it, p.id
			}
			step := fmt.Sprintf("Append(batch of %d: %s)", k, shorts(ids))
			c.Logf("%s via=%v", step, via)
			c.Probe("append_batch")
			if via {
				_ = ct.viaIntf(func(ci ap.CollectionInterface) { _ = ci.Append(buf...) })
			} else {
				_ = ct.app(buf...)
			}
			for _, id := range ids {
				m.add(id)
			}
			for j := range buf[:cap(buf)] {
				buf[:cap(buf)][j] = ap.IRI("https://caller.example/REUSED-BUFFER")
			}
			changes++
			verify(c, ct, m, vpool, via, "Append(batch)")
			continue
		}
		switch {
		case op <= 2: // Append(x)
			p := pool[t.Draw(nPool)]
			step := fmt.Sprintf("Append(%s %s)", p.shape, short(p.id))
			c.Logf("%s via=%v", step, via)
			if m.has(p.id) {
				c.Probe("append_present")
			}
			if via {
				_ = ct.viaIntf(func(ci ap.CollectionInterface) { _ = ci.Append(p.it) })
			} else {
				_ = ct.app(p.it)
			}
			m.add(p.id)
			changes++
			verify(c, ct, m, vpool, via, step)
		case op == 3: // Append(x, y, x)
			p, q := pool[t.Draw(nPool)], pool[t.Draw(nPool)]
			step := fmt.Sprintf("Append(%s,%s,%s)", short(p.id), short(q.id), short(p.id))
			c.Logf("%s via=%v", step, via)
			c.Probe("append_repeated_args")
			if via {
				_ = ct.viaIntf(func(ci ap.CollectionInterface) { _ = ci.Append(p.it, q.it, p.it) })
			} else {
				_ = ct.app(p.it, q.it, p.it)
			}
			m.add(p.id)
			m.add(q.id)
			changes++
			verify(c, ct, m, vpool, via, step)
		case op <= 5: // Remove(x) through the item-list view
			if kind == 1 {
				continue // IRI lists have no item-list view (ToItemCollection converts)
			}
			p := pool[t.Draw(nPool)]
			step := fmt.Sprintf("Remove(%s %s)", p.shape, short(p.id))
			c.Logf("%s", step)
			if m.has(p.id) {
				if m.ids[len(m.ids)-1] == p.id {
					c.Probe("remove_last")
				} else if m.ids[0] == p.id {
					c.Probe("remove_first")
				} else {
					c.Probe("remove_middle")
				}
			} else {
				c.Probe("remove_absent")
			}
			if err := ct.remove(p.it); err != nil {
				c.Fail("model", "C13/"+kindNames[kind]+"/Remove/view-error", "item-list view refused: %v", err)
			}
			m.del(p.id)
			changes++
			verify(c, ct, m, vpool, via, step)
		case op == 6: // Remove(nil)
			if kind == 1 {
				continue
			}
			c.Logf("Remove(nil)")
			_ = ct.remove(nil)
			verify(c, ct, m, vpool, via, "Remove(nil)")
		default: // Contains / Count only
			c.Logf("Contains(*) Count()")
			verify(c, ct, m, vpool, via, "Contains")
		}
	}
	if big && !thousand && kind != 1 && !c.Failed() && t.Bool(1, 2) {
		// drain: a collection that has grown is emptied again member by member in a drawn order (a
		// followers list after a defederation, an inbox that is purged), down to 0..4 members, so that
		// a representation that shrinks or compacts at some fill ratio of its capacity takes that path
		// (seeded wave 11: a Remove that re-allocates at a quarter of a capacity of 64 or more)
		c.Probe("drain_phase")
		byID := map[string]ap.Item{}
		for _, p := range pool {
			byID[p.id] = p.it
		}
		if t.Bool(1, 2) {
			// fill first: every pool item once more, one call each
			for _, p := range pool {
				_ = ct.app(p.it)
				m.add(p.id)
			}
			c.Logf("fill: Append of every pool item, one call each")
			verify(c, ct, m, pool, false, "fill before drain")
		}
		known := true
		for _, id := range m.ids {
			if _, ok := byID[id]; !ok {
				known = false // members the decoder made (not pool items) stay where they are
			}
		}
		stop := t.Draw(5)
		if !known {
			stop = len(m.ids)
		}
		for n := 0; len(m.ids) > stop && n < 200 && !c.Failed(); n++ {
			c.Rec.Ops++
			j := t.Draw(len(m.ids))
			if t.Bool(1, 6) {
				j = len(m.ids) - 1
			}
			id := m.ids[j]
			it, ok := byID[id]
			if !ok {
				it = ap.IRI(id)
			}
			step := fmt.Sprintf("drain: Remove(%s)", short(id))
			c.Logf("%s", step)
			if err := ct.remove(it); err != nil {
				c.Fail("model", "C13/"+kindNames[kind]+"/Remove/view-error", "item-list view refused: %v", err)
			}
			m.del(id)
			changes++
			vpool = pool
			if len(m.ids) > stop && n%16 != 15 {
				vpool = make([]poolItem, 8)
				for k := range vpool {
					vpool[k] = pool[t.Draw(nPool)]
				}
			}
			verify(c, ct, m, vpool, false, step)
		}
		// and it is usable afterwards: what was removed can be appended again
		for n := 0; n < 3 && !c.Failed(); n++ {
			p := pool[t.Draw(nPool)]
			step := fmt.Sprintf("after drain: Append(%s %s)", p.shape, short(p.id))
			c.Logf("%s", step)
			_ = ct.app(p.it)
			m.add(p.id)
			verify(c, ct, m, pool, false, step)
		}
	}
	c.Rec.Nontriv = changes > 0
	c.Rec.CaseHash = core.HashStr(strings.Join(c.Trace, ";"))
}

func poolDesc(pool []poolItem) string {
	s := make([]string, len(pool))
	for i, p := range pool {
		s[i] = p.shape + ":" + short(p.id)
	}
	return strings.Join(s, ",")
}

// ---------------------------------------------------------------- bounded-exhaustive tier

// enumCase is one explicit history of the exhaustive space.
type enumCase struct {
	Kind    int   `json:"kind"`
	Shapes  int   `json:"shapes"` // pool shape variant
	Spare   int   `json:"spare"`
	Initial int   `json:"initial"` // number of pool items present at the start
	Via     bool  `json:"via_intf"`
	Total   uint  `json:"total_items"`
	Ops     []int `json:"ops"`
}

// op alphabet over a 3-item pool: 0..2 Append(p_i), 3..5 Remove(p_i), 6..8 Append(p_i,p_j,p_i) with j=(i+1)%3
const enumAlphabet = 9

func enumPool(variant int) []poolItem {
	mk := func(i int, shape int) poolItem {
		id := ap.IRI(fmt.Sprintf("https://example.com/items/%d", i+1))
		switch shape {
		case 0:
			return poolItem{it: id, id: string(id), shape: "IRI"}
		case 1:
			return poolItem{it: &ap.Object{ID: id, Type: ap.NoteType, Name: ap.NaturalLanguageValues{{Ref: "en", Value: ap.Content("n")}, {Ref: "fr", Value: ap.Content("m")}}}, id: string(id), shape: "*Object"}
		case 2:
			return poolItem{it: &ap.Actor{ID: id, Type: ap.PersonType, PreferredUsername: ap.NaturalLanguageValues{{Ref: ap.NilLangRef, Value: ap.Content("u")}}}, id: string(id), shape: "*Actor"}
		case 3:
			return poolItem{it: &ap.Activity{ID: id, Type: ap.LikeType, Actor: ap.IRI("https://example.com/actor"), Object: ap.IRI("https://example.com/o")}, id: string(id), shape: "*Activity"}
		default:
			return poolItem{it: ap.Object{ID: id, Type: ap.ArticleType}, id: string(id), shape: "Object"}
		}
	}
	switch variant {
	case 0:
		return []poolItem{mk(0, 0), mk(1, 0), mk(2, 0)}
	case 1:
		return []poolItem{mk(0, 1), mk(1, 2), mk(2, 3)}
	default:
		return []poolItem{mk(0, 0), mk(1, 1), mk(2, 4)}
	}
}

func runEnumCase(ec *enumCase, rec *core.Record, steps *int64) {
	c := &core.Ctx{Rec: rec, Steps: steps, Tier: "thorough"}
	pool := enumPool(ec.Shapes)
	m := &model{}
	var initial []ap.Item
	for i := 0; i < ec.Initial; i++ {
		initial = append(initial, pool[i].it)
		m.add(pool[i].id)
	}
	if ec.Initial == 0 && ec.Spare == 0 {
		initial = nil
	}
	ct := newContainer(ec.Kind, initial, ec.Spare, ec.Total)
	c.Logf("%s init=%s spare=%d via=%v pool=%s", kindNames[ec.Kind], shorts(m.ids), ec.Spare, ec.Via, poolDesc(pool))
	verify(c, ct, m, pool, false, "init")
	for _, op := range ec.Ops {
		if c.Failed() {
			break
		}
		i := op % 3
		p := pool[i]
		switch op / 3 {
		case 0:
			step := fmt.Sprintf("Append(%s %s)", p.shape, short(p.id))
			c.Logf("%s", step)
			if ec.Via {
				_ = ct.viaIntf(func(ci ap.CollectionInterface) { _ = ci.Append(p.it) })
			} else {
				_ = ct.app(p.it)
			}
			m.add(p.id)
			verify(c, ct, m, pool, ec.Via, step)
		case 1:
			step := fmt.Sprintf("Remove(%s %s)", p.shape, short(p.id))
			c.Logf("%s", step)
			_ = ct.remove(p.it)
			m.del(p.id)
			verify(c, ct, m, pool, ec.Via, step)
		case 2:
			q := pool[(i+1)%3]
			step := fmt.Sprintf("Append(%s,%s,%s)", short(p.id), short(q.id), short(p.id))
			c.Logf("%s", step)
			if ec.Via {
				_ = ct.viaIntf(func(ci ap.CollectionInterface) { _ = ci.Append(p.it, q.it, p.it) })
			} else {
				_ = ct.app(p.it, q.it, p.it)
			}
			m.add(p.id)
			m.add(q.id)
			verify(c, ct, m, pool, ec.Via, step)
		}
	}
	rec.Sample = c.Trace
	rec.Ops = len(ec.Ops)
}

func enum(e *core.EnumCtx) {
	if len(e.OnlyCase) > 0 {
		var ec enumCase
		if err := json.Unmarshal(e.OnlyCase, &ec); err != nil {
			return
		}
		rec := &core.Record{Mode: "enum"}
		func() {
			defer func() {
				if r := recover(); r != nil {
					rec.Viol = &core.Violation{Oracle: "panic", Class: "C13/" + kindNames[ec.Kind] + "/panic", Detail: fmt.Sprint(r)}
				}
			}()
			runEnumCase(&ec, rec, e.Steps)
		}()
		rec.Steps = *e.Steps
		e.Emit(rec)
		return
	}
	maxLen := 4
	if e.Tier == "thorough" {
		maxLen = 5
	}
	// configurations: kind x shapes x spare x initial x via ; sharded round-robin
	type cfg struct {
		kind, shapes, spare, initial int
		via                          bool
	}
	var cfgs []cfg
	for kind := 0; kind < len(kindNames); kind++ {
		for shapes := 0; shapes < 3; shapes++ {
			for _, spare := range []int{0, 2} {
				for _, initial := range []int{0, 2} {
					for _, via := range []bool{false, true} {
						if kind == 1 && via {
							continue
						}
						cfgs = append(cfgs, cfg{kind, shapes, spare, initial, via})
					}
				}
			}
		}
	}
	cases, nontriv := 0, 0
	reported := map[string]bool{}
	sampled := false
	for ci, cf := range cfgs {
		if ci%e.Shards != e.Shard || e.Expired() {
			continue
		}
		e.Begin(fmt.Sprintf("%s/shapes%d/spare%d/init%d/via%v", kindNames[cf.kind], cf.shapes, cf.spare, cf.initial, cf.via))
		alphabet := enumAlphabet
		ops := []int{}
		var rec func(depth int)
		rec = func(depth int) {
			if cases&1023 == 0 && e.Expired() {
				return
			}
			if depth > 0 {
				skip := false
				if cf.kind == 1 {
					for _, o := range ops {
						if o/3 == 1 {
							skip = true
						}
					}
				}
				if !skip {
					ec := &enumCase{Kind: cf.kind, Shapes: cf.shapes, Spare: cf.spare, Initial: cf.initial, Via: cf.via, Total: uint(cf.spare * 3), Ops: append([]int(nil), ops...)}
					r := &core.Record{Mode: "enum"}
					func() {
						defer func() {
							if p := recover(); p != nil {
								r.Viol = &core.Violation{Oracle: "panic", Class: "C13/" + kindNames[cf.kind] + "/panic", Detail: fmt.Sprint(p)}
							}
						}()
						runEnumCase(ec, r, e.Steps)
					}()
					cases++
					nontriv++
					if r.Viol != nil && !reported[r.Viol.Class] {
						reported[r.Viol.Class] = true
						raw, _ := json.Marshal(ec)
						r.Plan = &core.Plan{Property: "C13", Tier: e.Tier, Mode: "enum", Case: raw}
						e.Emit(r)
					} else if r.Viol == nil && !sampled && len(ops) == maxLen && e.Shard == 0 {
						sampled = true
						e.Emit(r)
					}
				}
			}
			if depth == maxLen {
				return
			}
			for o := 0; o < alphabet; o++ {
				ops = append(ops, o)
				rec(depth + 1)
				ops = ops[:len(ops)-1]
			}
		}
		rec(0)
	}
	if e.Sum.Extra == nil {
		e.Sum.Extra = map[string]any{}
	}
	e.Sum.Extra["enum_cases"] = float64(cases)
	// every enumerated (configuration, op sequence) tuple is distinct by construction and
	// contains at least one state-changing call (the alphabet has only Append and Remove)
	e.Sum.Extra["enum_distinct_nontrivial"] = float64(nontriv)
	e.Sum.Extra["enum_max_len"] = fmt.Sprint(maxLen)
}
