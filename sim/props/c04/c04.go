// Package c04 checks property C04 for fault-derived inputs (DESIGN.md §4):
// writer -> faulty wire/disk -> reader. The writer encodes a generated value
// (or takes a repository mock) with the encoder matching a decode entry
// point; the wire damages the bytes; the reader hands what arrives to the
// entry point and then inspects, compares, re-encodes and formats whatever
// value came back. Oracles: no panic, no process death (parent), no hang
// (step budget in simulated time + watchdog), bounded allocation.
package c04

import (
	"encoding/gob"
	"encoding/json"
	"fmt"
	"os"
	"reflect"
	"runtime"
	"runtime/metrics"
	"sort"
	"strings"

	ap "github.com/go-ap/activitypub"

	"verif.local/sim/core"
	"verif.local/sim/gen"
	"verif.local/sim/gobcanon"
	"verif.local/sim/simrt"
	"verif.local/sim/wire"
)

func init() {
	buildEntries()
	core.Register(&core.Prop{
		ID: "C04",
		Modes: []core.ModeSpec{
			{Name: "faults", Weight: 347},
			{Name: "control", Weight: 50},
			{Name: "large", Weight: 3},
		},
		Run:  run,
		Enum: enum,
	})
}

// entry is one exported decode entry point.
type entry struct {
	name   string // "Object.UnmarshalJSON", "pkg.GobDecode"
	codec  string // json | text | gob
	typ    reflect.Type
	method string
	fn     reflect.Value // package-level function
}

var (
	entries  []*entry
	byName   = map[string]*entry{}
	byCodec  = map[string][]*entry{}
	tBytes   = reflect.TypeOf([]byte(nil))
	tErr     = reflect.TypeOf((*error)(nil)).Elem()
	tItemI   = reflect.TypeOf((*ap.Item)(nil)).Elem()
	mockList []mock
)

type mock struct {
	name string
	data []byte
}

func codecOf(method string) string {
	switch method {
	case "UnmarshalJSON":
		return "json"
	case "UnmarshalText":
		return "text"
	default:
		return "gob"
	}
}

// buildEntries derives the complete list of decode entry points by reflection
// over the tables the instrumenter generated, so that an entry point added by
// a later change is reached without touching the harness.
func buildEntries() {
	types := ap.VerifTypes()
	for _, tn := range core.SortedKeys(types) {
		pt := reflect.TypeOf(types[tn]) // *T
		for _, m := range []string{"UnmarshalJSON", "UnmarshalText", "UnmarshalBinary", "GobDecode"} {
			meth, ok := pt.MethodByName(m)
			if !ok {
				continue
			}
			mt := meth.Type
			if mt.NumIn() != 2 || mt.In(1) != tBytes || mt.NumOut() != 1 || !mt.Out(0).Implements(tErr) {
				continue
			}
			entries = append(entries, &entry{name: tn + "." + m, codec: codecOf(m), typ: pt.Elem(), method: m})
		}
	}
	funcs := ap.VerifFuncs()
	for _, fnName := range core.SortedKeys(funcs) {
		fv := reflect.ValueOf(funcs[fnName])
		ft := fv.Type()
		if ft.NumIn() != 1 || ft.In(0) != tBytes || ft.IsVariadic() {
			continue
		}
		codec := "json"
		if strings.Contains(fnName, "Gob") || strings.Contains(fnName, "Binary") {
			codec = "gob"
		} else if strings.Contains(fnName, "Text") {
			codec = "text"
		}
		entries = append(entries, &entry{name: "pkg." + fnName, codec: codec, fn: fv})
	}
	sort.Slice(entries, func(i, j int) bool { return entries[i].name < entries[j].name })
	for _, e := range entries {
		byName[e.name] = e
		byCodec[e.codec] = append(byCodec[e.codec], e)
	}
	mocks := ap.VerifMocks()
	for _, n := range core.SortedKeys(mocks) {
		mockList = append(mockList, mock{n, mocks[n]})
	}
}

// decode hands data to the entry point. val is the value the caller ends up
// holding: the receiver for methods, the returned item for package functions.
func (e *entry) decode(data []byte) (val any, err error) {
	arg := []reflect.Value{reflect.ValueOf(data)}
	if e.fn.IsValid() {
		outs := e.fn.Call(arg)
		for _, o := range outs {
			if o.Type().Implements(tErr) {
				if !o.IsNil() {
					err = o.Interface().(error)
				}
			} else if o.IsValid() && o.CanInterface() {
				if o.Kind() == reflect.Interface && o.IsNil() {
					continue
				}
				val = o.Interface()
			}
		}
		return val, err
	}
	p := reflect.New(e.typ)
	outs := p.MethodByName(e.method).Call(arg)
	if !outs[0].IsNil() {
		err = outs[0].Interface().(error)
	}
	return p.Interface(), err
}

// ---------------------------------------------------------------- writer

var encoderFor = map[string][]string{"json": {"MarshalJSON"}, "text": {"MarshalText"}, "gob": {"GobEncode", "MarshalBinary"}}

// write produces a clean encoding for the entry point from a generated value.
func write(e *entry, g *gen.G, t *core.Tape) (msg []byte, desc string) {
	simrt.HangHit = false
	simrt.Limit = simrt.Steps + 200000000 // (the writer's own budget: see encodeForWire)
	defer func() {
		simrt.Disarm()
		if simrt.HangHit {
			simrt.HangHit = false
			_ = recover()
			msg, desc = nil, "writer did not finish"
			return
		}
		if r := recover(); r != nil {
			// an encoder panicking on a generated value is not C04's subject
			msg, desc = nil, fmt.Sprintf("writer panicked: %v", r)
			return
		}
		if e.codec == "gob" {
			// encoding/gob writes maps in hash order: canonicalise so that one seed is one byte string
			msg = gobcanon.Canon(msg)
		}
	}()
	if e.fn.IsValid() {
		v := g.Top()
		desc = fmt.Sprintf("%T", v)
		if e.codec == "gob" {
			msg, _ = ap.GobEncode(v)
		} else {
			if t.Bool(1, 2) {
				msg, _ = ap.MarshalJSON(v)
				desc += " via jsonld"
			} else if m, ok := v.(json.Marshaler); ok {
				msg, _ = m.MarshalJSON()
			}
		}
		return msg, desc
	}
	v := g.Any(e.typ, 0)
	desc = e.typ.Name()
	for _, mn := range encoderFor[e.codec] {
		if m := v.MethodByName(mn); m.IsValid() && m.Type().NumIn() == 0 && m.Type().NumOut() == 2 {
			outs := m.Call(nil)
			if b, ok := outs[0].Interface().([]byte); ok {
				return b, desc
			}
		}
	}
	// no matching encoder on the type: fall back to an independent writer
	switch e.codec {
	case "json":
		msg, _ = json.Marshal(v.Interface())
	case "text":
		msg = []byte(fmt.Sprint(v.Interface()))
	case "gob":
		var sb strings.Builder
		_ = gob.NewEncoder(&sb).Encode(v.Interface())
		msg = []byte(sb.String())
	}
	return msg, desc + " (independent writer)"
}

// ---------------------------------------------------------------- reader oracles

var allocSample = []metrics.Sample{{Name: "/gc/heap/allocs:bytes"}}

func allocBytes() uint64 {
	metrics.Read(allocSample)
	if allocSample[0].Value.Kind() == metrics.KindUint64 {
		return allocSample[0].Value.Uint64()
	}
	return 0
}

// "memory proportional to the input". Two rules. (1) Everything allocated during
// one decode (cumulative, measured cheaply) stays under 256 MiB + 16 KiB per
// input byte: a clean decode of a 50 KB blob allocates about 6 MiB, and
// encoding/gob itself allocates up to ~10 MiB per decode attempt for a message
// whose damaged length prefix is large (measured: 41 MiB for one flipped
// length byte, five attempts), which is transient and not the library's doing.
// (2) When more than 16 MiB were allocated, what the decoded value RETAINS is
// measured exactly (two forced collections around a second decode) and must
// stay under 8 MiB + 1 KiB per input byte.
// MaxAlloc is the largest allocation growth seen during one decode in this process;
// MaxStepsPerByte / MaxSteps the largest decode cost (inputs of 1000 bytes and more).
var (
	MaxAlloc        uint64
	MaxStepsPerByte int
	MaxSteps        int64
)

const (
	allocBound   = 256 << 20
	allocPerByte = 16 << 10
	// second rule: above suspiciousAlloc the memory the decoded value retains is measured exactly
	suspiciousAlloc = 16 << 20
	retainedBound   = 8 << 20
	retainedPerByte = 1 << 10
)

// "time proportional to the input", in simulated time: a decode may execute at
// most 2 × (timeConst + timePerByte × len(input)) library statements. Measured
// on the unchanged tree over 640 000 clean and damaged blobs: at most 3
// statements per input byte and 26 000 in total, so the bound is some 50 times
// above anything linear; a quadratic list loader crosses it at a few hundred
// members.
const (
	timeConst   = 200000
	timePerByte = 150
)

func timeBound(n int) int64 { return timeConst + timePerByte*int64(n) }

// compareUpTo: comparisons are follow-ups for values decoded from at most this many bytes.
const compareUpTo = 24 << 10

var keepAlive any

// retainedBy decodes once more between two forced collections and returns the
// growth of the live heap that the returned value accounts for.
func retainedBy(e *entry, input []byte) (kept uint64) {
	defer func() {
		_ = recover()
		keepAlive = nil
	}()
	var m0, m1 runtime.MemStats
	runtime.GC()
	runtime.ReadMemStats(&m0)
	simrt.Disarm()
	keepAlive, _ = e.decode(input)
	runtime.GC()
	runtime.ReadMemStats(&m1)
	if m1.HeapAlloc > m0.HeapAlloc {
		kept = m1.HeapAlloc - m0.HeapAlloc
	}
	return kept
}

// encodeForWire is the writer's side: the library's encoder under a budget of its own. An
// encoder that panics or does not finish on a generated value is not C04's subject (the writer
// then has nothing to send); it must not stall the simulation either.
func encodeForWire(v ap.Item, codec string) (msg []byte) {
	defer func() {
		simrt.Disarm()
		if r := recover(); r != nil {
			msg = nil
		}
	}()
	simrt.HangHit = false
	simrt.Limit = simrt.Steps + 200000000
	if codec == "gob" {
		msg, _ = ap.GobEncode(v)
		return gobcanon.Canon(msg)
	}
	msg, _ = ap.MarshalJSON(v)
	if simrt.HangHit {
		simrt.HangHit = false
		return nil
	}
	return msg
}

// curKnobs: the draws of gen.WithHooks for the run in progress.
var curKnobs []uint32

// guarded runs fn under the panic oracle; stage names what was running.
func guarded(c *core.Ctx, e *entry, stage string, input []byte, fn func()) (ok bool) {
	return guarded2(c, e, stage, input, fn, false)
}

// guarded2: with hangIsCallers, an exhausted budget is left to the caller (the HangHit latch stays
// set and the budget panic is passed on) instead of being reported.
func guarded2(c *core.Ctx, e *entry, stage string, input []byte, fn func(), hangIsCallers bool) (ok bool) {
	simrt.HangHit = false
	defer func() {
		if hangIsCallers && simrt.HangHit {
			// (re-raised if it was not swallowed on the way: the caller recovers it)
			if r := recover(); r != nil {
				panic(r)
			}
			return
		}
		r := recover()
		if r == nil && !simrt.HangHit {
			return
		}
		{
			ok = false
			if c.Failed() {
				return
			}
			if simrt.HangHit {
				// (the budget panic may have been swallowed or re-wrapped by a dependency on its way up)
				simrt.HangHit = false
				if stage == "decode" {
					holder := simrt.LoopHolder()
					c.Fail("time", "C04/time/decode/"+holder, "decode of %d bytes at %s executed more than %d library statements (bound: %d + %d per input byte; decodes of undamaged and damaged blobs normally take at most 3 per byte): a loop, an unbounded recursion or a superlinear algorithm in %s (last statement %s)", len(input), e.name, 2*timeBound(len(input)), 2*timeConst, 2*timePerByte, holder, siteName(simrt.HangSite))
				} else {
					c.Fail("hang", "C04/hang/"+stage, "%s of the value decoded from %d bytes at %s exhausted its step budget (simulated time) in %s: it does not terminate", stage, len(input), e.name, siteName(simrt.HangSite))
				}
			} else {
				frame, kind := libFrame(r)
				c.Fail("panic", fmt.Sprintf("C04/panic/%s/%s/%s", stage, frame, kind), "%s at entry point %s panicked on %d bytes %q: %v", stage, e.name, len(input), clip(input, 80), r)
			}
			c.PlanOut = &core.Plan{Property: "C04", Tier: c.Tier, Mode: "direct", Entry: e.name, Input: append([]byte{}, input...), Knobs: curKnobs}
		}
	}()
	fn()
	return true
}

func clip(b []byte, n int) []byte {
	if len(b) > n {
		return b[:n]
	}
	return b
}

// readAndExercise is the reader: decode under the oracles, then follow up on
// whatever value came back.
func readAndExercise(c *core.Ctx, e *entry, input []byte, cleanSteps int64) (val any, err error, steps int64) {
	simrt.Record(e.name, input)
	// "no hang", in simulated time: orders of magnitude above anything linear or
	// quadratic in these inputs, so that only a genuine loop trips it
	_ = cleanSteps
	start := simrt.Steps
	a0 := allocBytes()
	ok := guarded(c, e, "decode", input, func() {
		simrt.ArmLadder(timeBound(len(input)))
		val, err = e.decode(input)
		simrt.Disarm()
	})
	simrt.Disarm()
	steps = simrt.Steps - start
	if len(input) >= 1000 {
		if spb := int(steps / int64(len(input))); spb > MaxStepsPerByte {
			MaxStepsPerByte = spb
		}
	}
	if steps > MaxSteps {
		MaxSteps = steps
	}
	if !ok {
		return nil, nil, steps
	}
	grown := allocBytes() - a0
	if grown > MaxAlloc {
		MaxAlloc = grown
		if os.Getenv("VERIF_DEBUG_ALLOC") != "" && grown > 4<<20 {
			fmt.Fprintf(os.Stderr, "ALLOC %d KiB at %s on %d bytes %q err=%v\n", grown>>10, e.name, len(input), clip(input, 200), err)
		}
	}
	if grown > allocBound+allocPerByte*uint64(len(input)) {
		c.Fail("alloc", "C04/alloc/decode/"+e.codec, "decode of %d bytes at %s allocated %d MiB", len(input), e.name, grown>>20)
		c.PlanOut = &core.Plan{Property: "C04", Tier: c.Tier, Mode: "direct", Entry: e.name, Input: append([]byte{}, input...), Knobs: curKnobs}
		return nil, nil, steps
	}
	if grown > suspiciousAlloc {
		// A lot was allocated for this input. encoding/gob itself reads a message whose (damaged)
		// length prefix is large in 10 MiB chunks and throws them away – transient, bounded, and not
		// the library's doing. What the library must not do is size something it KEEPS by a number
		// read from the input: measure what the decoded value retains.
		c.Probe("decode_allocated_over_16MiB")
		if kept := retainedBy(e, input); kept > retainedBound+retainedPerByte*uint64(len(input)) {
			c.Fail("alloc", "C04/alloc/retained/"+e.codec, "the value decoded from %d bytes at %s keeps %d MiB alive (allocation sized by a number read from the input, not by the input)", len(input), e.name, kept>>20)
			c.PlanOut = &core.Plan{Property: "C04", Tier: c.Tier, Mode: "direct", Entry: e.name, Input: append([]byte{}, input...), Knobs: curKnobs}
			return nil, nil, steps
		}
	}
	if err != nil {
		c.Probe("decode_error")
	}
	exercise := val != nil && (err == nil || e.fn.IsValid())
	if !exercise {
		return val, err, steps
	}
	if rv := reflect.ValueOf(val); rv.Kind() == reflect.Pointer && rv.IsNil() {
		return val, err, steps
	}
	c.Probe("value_returned")
	followUps(c, e, input, val)
	return val, err, steps
}

// checkFormatted: package fmt recovers a panic raised by a Format or String
// method and prints it as %!v(PANIC=…); that is still a panic of the library.
func checkFormatted(c *core.Ctx, e *entry, input []byte, out string) bool {
	i := strings.Index(out, "(PANIC=")
	if i < 0 {
		return true
	}
	msg := out[i:]
	if j := strings.Index(msg, ")"); j > 0 {
		msg = msg[:j+1]
	}
	kind := "value"
	switch {
	case strings.Contains(msg, "index out of range"):
		kind = "index-out-of-range"
	case strings.Contains(msg, "slice bounds"):
		kind = "slice-bounds"
	case strings.Contains(msg, "nil pointer"):
		kind = "nil-deref"
	}
	method := "Format"
	if strings.Contains(msg, "String method") {
		method = "String"
	}
	c.Fail("panic", fmt.Sprintf("C04/panic/followup:Format/recovered-by-fmt/%s/%s", method, kind), "formatting the value decoded at %s from %d bytes %q panicked inside a %s method (recovered and printed by package fmt): %s", e.name, len(input), clip(input, 80), method, msg)
	c.PlanOut = &core.Plan{Property: "C04", Tier: c.Tier, Mode: "direct", Entry: e.name, Input: append([]byte{}, input...), Knobs: curKnobs}
	return false
}

var readOnlyNiladic = []string{"MarshalJSON", "MarshalText", "MarshalBinary", "GobEncode", "String", "GetID", "GetLink", "GetType", "IsLink", "IsObject", "IsCollection", "Count", "Collection", "First", "Normalize", "IRIs"}

// followUps: any value a decoder returns can be inspected, compared,
// re-encoded in both codecs and formatted without panicking.
func followUps(c *core.Ctx, e *entry, input []byte, val any) {
	// follow-ups only have to terminate (the property bounds the decoders' time, not theirs):
	// a generous budget that also lets comparisons that are quadratic in a list's length finish
	budget := int64(20000000) + 5000*int64(min(len(input), compareUpTo)) + 100*int64(len(input))
	run := func(stage string, fn func()) bool {
		simrt.Progress.Add(1)
		if os.Getenv("VERIF_DEBUG_STEPS") != "" {
			s0 := simrt.Steps
			defer func() { fmt.Fprintf(os.Stderr, "STEPS %s %d\n", stage, simrt.Steps-s0) }()
		}
		if len(input) > compareUpTo {
			// On a large input the budget is only there to keep the simulation moving: a follow-up that
			// is slow on half a megabyte (quadratic in the text, say) still terminates, and the property
			// asks no more of it. It is abandoned, counted, and not reported; genuine loops show on the
			// inputs of ordinary size, where the budget is far above anything polynomial.
			abandoned := false
			ok := func() (ok bool) {
				defer func() {
					if simrt.HangHit {
						simrt.HangHit = false
						_ = recover()
						abandoned, ok = true, false
					}
				}()
				return guarded2(c, e, stage, input, func() {
					simrt.Limit = simrt.Steps + budget
					fn()
					simrt.Disarm()
				}, true)
			}()
			if abandoned {
				simrt.Disarm()
				c.Probe("followup_abandoned_on_large_input")
			}
			return ok
		}
		return guarded(c, e, stage, input, func() {
			simrt.Limit = simrt.Steps + budget
			fn()
			simrt.Disarm()
		})
	}
	defer simrt.Disarm()
	if it, ok := val.(ap.Item); ok {
		if !run("followup:IsNil", func() { _ = ap.IsNil(it) }) {
			return
		}
		if !run("followup:NotEmpty", func() { _ = ap.NotEmpty(it) }) {
			return
		}
		// (the library's set equality compares every member with every member: on a list of
		// thousands it is quadratic by design, and the property only asks that comparing does not
		// panic – comparisons are exercised on values decoded from inputs of ordinary size)
		compare := len(input) <= compareUpTo
		if compare && !run("followup:ItemsEqual", func() { _ = ap.ItemsEqual(it, it) }) {
			return
		}
		if !run("followup:MarshalJSON", func() { _, _ = ap.MarshalJSON(it) }) {
			return
		}
		if !run("followup:GobEncode", func() { _, _ = ap.GobEncode(it) }) {
			return
		}
		var formatted string
		if !run("followup:Format", func() { formatted = fmt.Sprintf("%v|%s|%+v|%q", it, it, it, it) + formatMore(val) }) {
			return
		}
		if !checkFormatted(c, e, input, formatted) {
			return
		}
	} else {
		var formatted string
		if !run("followup:Format", func() { formatted = fmt.Sprintf("%v|%s|%+v", val, val, val) + formatMore(val) }) {
			return
		}
		if !checkFormatted(c, e, input, formatted) {
			return
		}
	}
	if it, ok := val.(ap.Item); ok && len(input) <= compareUpTo && (c.Tier == "thorough" || c.Replay || core.Hash64(input)%4 == 0) {
		// compared: with what the same value looks like after a trip through either codec (a cached
		// copy against a fresh one) – both argument orders
		var viaGob, viaJSON ap.Item
		var gobBytes, jsonBytes []byte
		if !run("followup:re-encode", func() {
			gobBytes, _ = ap.GobEncode(it)
			// (encoding/gob writes maps in the runtime's random order: canonical bytes, so that the twin
			// – and the work of decoding and comparing it – is a function of the run)
			gobBytes = gobcanon.Canon(gobBytes)
			jsonBytes, _ = ap.MarshalJSON(it)
		}) {
			return
		}
		// what the library wrote is an input like any other: decoding it is held to the decoders'
		// time bound (proportional to these bytes), not to the follow-ups' generous budget
		redecode := func(pe *entry, b []byte) (twin ap.Item, ok bool) {
			if pe == nil || len(b) == 0 {
				return nil, true
			}
			simrt.Progress.Add(1)
			ok = guarded(c, pe, "decode", b, func() {
				simrt.ArmLadder(timeBound(len(b)))
				v, _ := pe.decode(b)
				simrt.Disarm()
				twin, _ = v.(ap.Item)
			})
			simrt.Disarm()
			return twin, ok
		}
		var ok bool
		if viaGob, ok = redecode(byName["pkg.GobDecode"], gobBytes); !ok {
			return
		}
		if viaJSON, ok = redecode(byName["pkg.UnmarshalJSON"], jsonBytes); !ok {
			return
		}
		for _, tw := range []struct {
			name string
			v    ap.Item
		}{{"gob-twin", viaGob}, {"json-twin", viaJSON}} {
			if tw.v == nil {
				continue
			}
			twin := tw.v
			if !run("followup:ItemsEqual(x,"+tw.name+")", func() { _ = ap.ItemsEqual(it, twin) }) {
				return
			}
			if !run("followup:ItemsEqual("+tw.name+",x)", func() { _ = ap.ItemsEqual(twin, it) }) {
				return
			}
		}
	}
	// inspected: a list the value holds can be asked about its own members (first and last of each
	// list, the lists found through the value's fields up to three levels down)
	if len(input) <= compareUpTo {
		for _, l := range listsOf(reflect.ValueOf(val), 0, nil) {
			l := l
			if !run("followup:Contains(own member)", func() {
				_ = l.Contains(l[0])
				_ = l.Contains(l[len(l)-1])
				_ = l.ItemsMatch(l[len(l)/2])
			}) {
				return
			}
		}
	}
	// quick tier: the package-level follow-ups above already reach the value's own encoders, so
	// the per-method pass only calls the cheap accessors; the encoders' method forms
	// (MarshalJSON, MarshalBinary, GobEncode, MarshalText) run in the thorough tier and in replays
	_, isItem := val.(ap.Item)
	cheapOnly := isItem && c.Tier != "thorough" && !c.Replay
	rv := reflect.ValueOf(val)
	for _, mn := range readOnlyNiladic {
		if cheapOnly && (strings.HasPrefix(mn, "Marshal") || mn == "GobEncode") {
			continue
		}
		m := rv.MethodByName(mn)
		if !m.IsValid() || m.Type().NumIn() != 0 {
			continue
		}
		if !run("followup:"+mn, func() { m.Call(nil) }) {
			return
		}
	}
}

// formatMore: what else a caller may write in a format string – other verbs, flags, a width, a
// precision – on the value and on the language values and texts it holds (at most six of them).
func formatMore(val any) string {
	const f = "|%x|% X|%d|%c|%U|%#v|%.3s|%.40s|%10.2v|%-12q|%+q|%08v"
	out := fmt.Sprintf(f, val, val, val, val, val, val, val, val, val, val, val, val)
	n := 0
	var walk func(v reflect.Value, depth int)
	walk = func(v reflect.Value, depth int) {
		if !v.IsValid() || depth > 3 || n >= 6 {
			return
		}
		switch v.Type() {
		case reflect.TypeOf(ap.NaturalLanguageValues(nil)):
			if v.Len() > 0 && v.CanInterface() {
				n++
				nlv := v.Interface().(ap.NaturalLanguageValues)
				out += fmt.Sprintf(f, nlv, nlv, nlv, nlv, nlv, nlv, nlv, nlv, nlv, nlv, nlv, nlv)
				out += fmt.Sprintf(f, nlv[0], nlv[0], nlv[0], nlv[0], nlv[0], nlv[0], nlv[0], nlv[0], nlv[0], nlv[0], nlv[0], nlv[0])
				c0 := nlv[0].Value
				out += fmt.Sprintf(f, c0, c0, c0, c0, c0, c0, c0, c0, c0, c0, c0, c0)
			}
			return
		}
		switch v.Kind() {
		case reflect.Ptr, reflect.Interface:
			if !v.IsNil() {
				walk(v.Elem(), depth)
			}
		case reflect.Struct:
			for i := 0; i < v.NumField(); i++ {
				if fv := v.Field(i); fv.CanInterface() {
					switch fv.Kind() {
					case reflect.Slice, reflect.Ptr, reflect.Interface, reflect.Struct:
						walk(fv, depth+1)
					}
				}
			}
		}
	}
	walk(reflect.ValueOf(val), 0)
	return out
}

// listsOf collects the non-empty item lists a decoded value holds (at most 12).
func listsOf(v reflect.Value, depth int, acc []ap.ItemCollection) []ap.ItemCollection {
	if !v.IsValid() || depth > 3 || len(acc) >= 12 {
		return acc
	}
	if v.Type() == reflect.TypeOf(ap.ItemCollection(nil)) {
		if l := v.Interface().(ap.ItemCollection); len(l) > 0 {
			acc = append(acc, l)
			for _, m := range l[:min(len(l), 4)] {
				acc = listsOf(reflect.ValueOf(m), depth+1, acc)
			}
		}
		return acc
	}
	switch v.Kind() {
	case reflect.Ptr, reflect.Interface:
		if !v.IsNil() {
			acc = listsOf(v.Elem(), depth, acc)
		}
	case reflect.Struct:
		for i := 0; i < v.NumField(); i++ {
			if f := v.Field(i); f.CanInterface() {
				switch f.Kind() {
				case reflect.Slice, reflect.Ptr, reflect.Interface, reflect.Struct:
					acc = listsOf(f, depth+1, acc)
				}
			}
		}
	}
	return acc
}

// ---------------------------------------------------------------- seeded runs

func run(c *core.Ctx) {
	if c.Entry != "" {
		direct(c)
		return
	}
	t := c.Tape
	restore, hooksOn := gen.WithHooks(t)
	defer restore()
	// (what configured the process is part of any explicit-bytes replay of this run)
	curKnobs = append([]uint32(nil), t.Recorded()...)
	defer func() { curKnobs = nil }()
	if hooksOn {
		c.Probe("extension_hooks_installed")
	}
	k := gen.DrawKnobs(t)
	k.ValueForms = false // a decoder's wire peer encodes what it holds; value forms encode identically
	k.Paragraphs = t.Bool(1, 2)
	g := gen.New(t, k)
	e := entries[t.Draw(len(entries))]
	var msg []byte
	var desc string
	if c.Mode == "large" {
		runLarge(c, g)
		return
	}
	if e.codec == "json" && len(mockList) > 0 && t.Bool(1, 4) {
		m := mockList[t.Draw(len(mockList))]
		msg, desc = m.data, "mock "+m.name
	} else if e.codec == "json" && t.Bool(1, 4) {
		// a document as a foreign server writes it (independent writer)
		msg, desc = gen.PeerDoc(t), "peer document"
		if t.Bool(1, 2) {
			e = byName["pkg.UnmarshalJSON"]
		}
	} else if e.codec == "gob" && t.Bool(1, 6) {
		// a well-formed gob stream of another schema (an older version's blob, another program's)
		msg, desc = gobcanon.Canon(gen.ForeignGob(t)), "gob stream of a foreign schema"
		c.Probe("foreign_gob_schema")
	} else {
		msg, desc = write(e, g, t)
	}
	// another blob on the same disk / wire (for stale tails and splices)
	var other []byte
	if oe := byCodec[e.codec]; len(oe) > 0 {
		other, _ = write(oe[t.Draw(len(oe))], g, t)
	}
	target := e
	if t.Bool(1, 8) {
		// misdirected read: the blob is handed to another entry point
		target = entries[t.Draw(len(entries))]
		c.Probe("misdirected_read")
	}
	c.Logf("writer: %s for %s, %d bytes", desc, e.name, len(msg))
	// clean decode first: the yardstick for the hang bound, and the control configuration
	_, _, cleanSteps := readAndExercise(c, target, msg, 0)
	if c.Failed() {
		c.Logf("clean decode at %s failed", target.name)
		finish(c, target, "clean", nil)
		return
	}
	if c.Mode == "control" {
		c.Logf("control: no fault, decode at %s", target.name)
		finish(c, target, "control", nil)
		return
	}
	enabled := wire.Kinds
	if t.Bool(1, 3) {
		// swarm: a random subset of fault kinds per run
		sub := []string{}
		for _, kd := range wire.Kinds {
			if t.Bool(1, 2) {
				sub = append(sub, kd)
			}
		}
		if len(sub) > 0 {
			enabled = sub
		}
	}
	prog := wire.DrawProgram(t, len(msg), 3, enabled)
	damaged := wire.Run(msg, prog, other)
	progStr := make([]string, len(prog))
	for i, f := range prog {
		progStr[i] = f.String()
	}
	c.Logf("wire: %s -> %d bytes; reader: %s", strings.Join(progStr, " + "), len(damaged), target.name)
	changed := string(damaged) != string(msg)
	if changed {
		for _, f := range prog {
			c.Fault(f.Kind)
		}
		if len(damaged) <= 1 {
			c.Probe("input_len_0_or_1")
		}
	} else {
		c.Probe("fault_program_was_identity")
	}
	val, err, _ := readAndExercise(c, target, damaged, cleanSteps)
	if changed && err == nil && val != nil {
		c.Probe("damaged_bytes_decoded_to_a_value")
	}
	c.Rec.Nontriv = changed
	finish(c, target, strings.Join(progStr, "+"), nil)
}

// runLarge: a collection (or page) with hundreds to thousands of members, as a
// busy actor's outbox or followers list has – clean, or with one fault. The
// property bounds a decoder's time by the size of its input; only a list long
// enough tells a linear loader from a quadratic one.
func runLarge(c *core.Ctx, g *gen.G) {
	t := c.Tape
	n := []int{200, 400, 800, 1600}[t.Draw(4)]
	members := make(ap.ItemCollection, 0, n)
	for i := 0; i < n; i++ {
		if t.Bool(1, 8) {
			members = append(members, &ap.Object{ID: g.IRI(), Type: ap.NoteType})
		} else {
			members = append(members, g.IRI())
		}
	}
	var v ap.Item
	var entryNames []string
	switch t.Draw(5) {
	case 0:
		runDeep(c, g)
		return
	case 1, 2:
		runLongText(c, g)
		return
	}
	switch t.Draw(4) {
	case 3:
		// a bare list (a top-level JSON array)
		v = members
		entryNames = []string{"pkg.UnmarshalJSON", "pkg.GobDecode"}
	case 0:
		v = &ap.OrderedCollection{ID: g.IRI(), Type: ap.OrderedCollectionType, TotalItems: uint(n), OrderedItems: members}
		entryNames = []string{"pkg.UnmarshalJSON", "OrderedCollection.UnmarshalJSON", "pkg.GobDecode", "OrderedCollection.GobDecode"}
	case 1:
		v = &ap.CollectionPage{ID: g.IRI(), Type: ap.CollectionPageType, TotalItems: uint(n), Items: members}
		entryNames = []string{"pkg.UnmarshalJSON", "CollectionPage.UnmarshalJSON", "pkg.GobDecode", "CollectionPage.UnmarshalBinary"}
	default:
		v = &ap.Object{ID: g.IRI(), Type: ap.NoteType, To: members}
		entryNames = []string{"pkg.UnmarshalJSON", "Object.UnmarshalJSON", "pkg.GobDecode", "Object.GobDecode"}
	}
	e := byName[entryNames[t.Draw(len(entryNames))]]
	if e == nil {
		return
	}
	msg := encodeForWire(v, e.codec)
	if len(msg) == 0 {
		c.Probe("writer_had_nothing_to_send")
		return
	}
	what := "clean"
	if t.Bool(1, 2) {
		prog := wire.DrawProgram(t, len(msg), 1, []string{wire.Truncate, wire.BitFlip, wire.DropChunk, wire.DupChunk, wire.ZeroChunk})
		msg = wire.Run(msg, prog, nil)
		what = prog[0].String()
		c.Fault(prog[0].Kind)
	}
	c.Probe("large_list_decoded")
	c.Logf("large: %T with %d members, %d bytes, %s; reader: %s", v, n, len(msg), what, e.name)
	readAndExercise(c, e, msg, 0)
	c.Rec.Nontriv = true
	finish(c, e, fmt.Sprintf("large/%d/%s", n, what), nil)
}

// runDeep: a reply thread embedded through inReplyTo (or an activity chain
// through object) 8 to 32 levels deep, as the library itself encodes it. The
// recursion of the loaders is proportional to the nesting, which is fine;
// work that doubles per level is not proportional to the input any more.
func runDeep(c *core.Ctx, g *gen.G) {
	t := c.Tape
	depth := []int{8, 16, 24, 32}[t.Draw(4)]
	var inner ap.Item = g.IRI()
	viaObject := t.Bool(1, 3)
	for i := 0; i < depth; i++ {
		if viaObject {
			inner = &ap.Activity{ID: g.IRI(), Type: ap.AnnounceType, Actor: g.IRI(), Object: inner}
		} else {
			inner = &ap.Object{ID: g.IRI(), Type: ap.NoteType, InReplyTo: inner, Content: ap.NaturalLanguageValues{{Ref: ap.NilLangRef, Value: ap.Content("reply")}}}
		}
	}
	names := []string{"pkg.UnmarshalJSON", "Object.UnmarshalJSON", "pkg.GobDecode", "Object.GobDecode"}
	if viaObject {
		names = []string{"pkg.UnmarshalJSON", "Activity.UnmarshalJSON", "pkg.GobDecode", "Activity.GobDecode"}
	}
	e := byName[names[t.Draw(len(names))]]
	if e == nil {
		return
	}
	msg := encodeForWire(inner, e.codec)
	if len(msg) == 0 {
		c.Probe("writer_had_nothing_to_send")
		return
	}
	c.Probe("deep_nesting_decoded")
	c.Logf("deep: %d levels through %v, %d bytes; reader: %s", depth, map[bool]string{true: "object", false: "inReplyTo"}[viaObject], len(msg), e.name)
	readAndExercise(c, e, msg, 0)
	c.Rec.Nontriv = true
	finish(c, e, fmt.Sprintf("deep/%d/%v", depth, viaObject), nil)
}

// runLongText: an article – one text of 32..512 KiB, dense with the characters that make the
// text helpers work (quotes, backslashes, line breaks, markup, non-ASCII), clean or with one
// fault. Only a long text tells a helper that is linear in the text from one that is quadratic
// in it (an edit that shifts the tail once per escape, a string grown piece by piece).
func runLongText(c *core.Ctx, g *gen.G) {
	t := c.Tape
	size := []int{32 << 10, 96 << 10, 256 << 10, 512 << 10}[t.Draw(4)]
	if t.Bool(1, 8) {
		// a book chapter, a log dump: texts of several megabytes do get posted
		size = []int{2 << 20, 5 << 20}[t.Draw(2)]
	}
	pieces := [][]string{
		{"<p>line of text with a \"quote\" and a back\\slash</p>\n", "second\tline\r\n", "é ü 日本 \U0001F600 "},
		{`\n`, `\"`, `\\`, `\t`, "x"}, // the escapes spelled out, as a doubly encoded text carries them
		{"plain words only, nothing to escape at all. "},
	}[[]int{0, 1, 1, 2}[t.Draw(4)]]
	buf := make([]byte, 0, size+64)
	if t.Bool(1, 5) {
		// nested delimiters (a serialised array of arrays, a deeply quoted reply, wiki markup): all the
		// openers first, all the closers last – the worst case for any helper that looks for the
		// closer of each opener
		d := [][2]string{{"[", "]"}, {"{", "}"}, {"(", ")"}, {"<", ">"}, {"[[", "]]"}, {"\"", "\""}}[t.Draw(6)]
		half := size / (2 * len(d[0]))
		buf = append(buf, strings.Repeat(d[0], half)...)
		buf = append(buf, "en"...)
		buf = append(buf, strings.Repeat(d[1], half)...)
		c.Probe("long_text_of_nested_delimiters")
	}
	for len(buf) < size {
		buf = append(buf, pieces[t.Draw(len(pieces))]...)
	}
	var v ap.Item
	names := []string{"pkg.UnmarshalJSON", "Object.UnmarshalJSON", "pkg.GobDecode", "Object.GobDecode"}
	switch t.Draw(3) {
	case 0:
		v = &ap.Object{ID: g.IRI(), Type: ap.ArticleType, Content: ap.NaturalLanguageValues{{Ref: ap.NilLangRef, Value: buf}}}
	case 1:
		v = &ap.Object{ID: g.IRI(), Type: ap.ArticleType, Name: ap.NaturalLanguageValues{{Ref: "en", Value: buf[:len(buf)/2]}, {Ref: "fr", Value: buf[len(buf)/2:]}}}
	default:
		v = &ap.Object{ID: g.IRI(), Type: ap.NoteType, Source: ap.Source{Content: ap.NaturalLanguageValues{{Ref: ap.NilLangRef, Value: buf}}, MediaType: "text/markdown"}}
	}
	e := byName[names[t.Draw(len(names))]]
	if te := byCodec["text"]; len(te) > 0 && t.Bool(1, 3) {
		// the text itself at one of the text entry points (UnmarshalText of the language-value types)
		e = te[t.Draw(len(te))]
	}
	if e == nil {
		return
	}
	var msg []byte
	if e.codec == "text" {
		msg = append([]byte(nil), buf...)
	} else if e.codec == "json" && t.Bool(2, 3) {
		// written by a peer (encoding/json), as most articles a server decodes are
		doc := map[string]any{"@context": "https://www.w3.org/ns/activitystreams", "id": string(v.GetLink()), "type": "Article"}
		switch t.Draw(3) {
		case 0:
			doc["content"] = string(buf)
		case 1:
			doc["contentMap"] = map[string]string{"en": string(buf[:len(buf)/2]), "fr": string(buf[len(buf)/2:])}
		default:
			doc["source"] = map[string]any{"content": string(buf), "mediaType": "text/markdown"}
		}
		msg, _ = json.Marshal(doc)
	} else {
		msg = encodeForWire(v, e.codec)
	}
	if len(msg) == 0 {
		c.Probe("writer_had_nothing_to_send")
		return
	}
	fault := "clean"
	if t.Bool(1, 2) && len(msg) > 0 {
		prog := wire.DrawProgram(t, len(msg), 1, []string{wire.Truncate, wire.BitFlip, wire.DropChunk, wire.DupChunk, wire.ZeroChunk, wire.FieldTruncate})
		msg = wire.Run(msg, prog, nil)
		fault = prog[0].String()
		c.Fault(prog[0].Kind)
	}
	c.Probe("long_text_decoded")
	c.Logf("long text: %d bytes of text, message %d bytes, %s; reader: %s", len(buf), len(msg), fault, e.name)
	readAndExercise(c, e, msg, 0)
	c.Rec.Nontriv = true
	finish(c, e, fmt.Sprintf("longtext/%d/%s", size, fault), nil)
}

func finish(c *core.Ctx, e *entry, what string, _ any) {
	c.Rec.Ops = 1
	if c.Rec.Probes == nil {
		c.Rec.Probes = map[string]int{}
	}
	// (a gauge, merged by maximum in the parent: key prefix "max_")
	c.Rec.Probes["max_decode_alloc_kib"] = int(MaxAlloc >> 10)
	c.Rec.Probes["max_decode_steps_per_input_byte"] = MaxStepsPerByte
	c.Rec.Probes["max_decode_steps"] = int(MaxSteps)
	c.Rec.CaseHash = core.HashStr(fmt.Sprintf("%d|%s|%s", c.Rec.Seed, e.name, what))
}

// direct replays explicit bytes at a named entry point.
func direct(c *core.Ctx) {
	e := byName[c.Entry]
	if e == nil {
		c.Fail("harness", "C04/harness/unknown-entry", "entry point %q does not exist in this tree", c.Entry)
		return
	}
	if len(c.Knobs) > 0 {
		restore, _ := gen.WithHooks(core.ReplayTape(c.Knobs))
		defer restore()
		curKnobs = c.Knobs
		defer func() { curKnobs = nil }()
	}
	c.Logf("direct: %d bytes %q at %s", len(c.Input), clip(c.Input, 120), e.name)
	readAndExercise(c, e, c.Input, 0)
	c.Rec.Ops = 1
}

// ---------------------------------------------------------------- helpers

var _ = siteFunc

func siteFunc(site uint32) string {
	s := siteName(site)
	return s[strings.LastIndex(s, ":")+1:]
}
