package c04

import (
	"encoding/json"
	"fmt"

	"github.com/go-ap/activitypub/verifsim"

	"verif.local/sim/core"
	"verif.local/sim/gen"
	"verif.local/sim/simrt"
	"verif.local/sim/wire"
)

func libFrame(r any) (string, string) { return simrt.PanicSite(r) }

func siteName(site uint32) string {
	if int(site) < len(verifsim.Sites) {
		return verifsim.Sites[site]
	}
	return "?:0:?"
}

// corpusItem is one clean message of the enumeration tier with the entry
// point it is addressed to.
type corpusItem struct {
	e    *entry
	msg  []byte
	desc string
}

// buildCorpus: for every entry point three generated values of growing size,
// plus every repository mock at the package-level JSON entry point, at
// Object.UnmarshalJSON and at one further JSON entry point.
func buildCorpus(tier string) []corpusItem {
	var out []corpusItem
	sizes := []gen.Knobs{
		{MaxDepth: 1, FieldP: 3, MaxList: 1, Budget: 3, Links: true},
		{MaxDepth: 2, FieldP: 6, MaxList: 2, Budget: 10, Links: true, IDless: true},
		{MaxDepth: 3, FieldP: 9, MaxList: 3, Budget: 24, Links: true, IDless: true},
	}
	if tier != "thorough" {
		sizes = sizes[:2]
	}
	for ei, e := range entries {
		for si, k := range sizes {
			t := core.NewTape(core.Mix(0xC04, uint64(ei*8+si)))
			g := gen.New(t, k)
			msg, desc := write(e, g, t)
			if msg == nil {
				continue
			}
			out = append(out, corpusItem{e, msg, fmt.Sprintf("%s size%d", desc, si)})
		}
	}
	// documents as a foreign server writes them
	for i := 0; i < 12; i++ {
		doc := gen.PeerDoc(core.NewTape(core.Mix(0xC04D0C, uint64(i))))
		for _, name := range []string{"pkg.UnmarshalJSON", []string{"Object.UnmarshalJSON", "Activity.UnmarshalJSON", "Actor.UnmarshalJSON", "OrderedCollection.UnmarshalJSON"}[i%4]} {
			if e := byName[name]; e != nil {
				out = append(out, corpusItem{e, doc, fmt.Sprintf("peer document %d", i)})
			}
		}
	}
	jsonEntries := byCodec["json"]
	for mi, m := range mockList {
		for _, name := range []string{"pkg.UnmarshalJSON", "Object.UnmarshalJSON"} {
			if e := byName[name]; e != nil {
				out = append(out, corpusItem{e, m.data, "mock " + m.name})
			}
		}
		if len(jsonEntries) > 0 {
			out = append(out, corpusItem{jsonEntries[(mi*7)%len(jsonEntries)], m.data, "mock " + m.name})
		}
	}
	return out
}

// enum is the fault-enumeration tier: for every corpus message, every torn
// write point (prefix), every single-bit flip, and every single-chunk drop /
// duplicate / zero at three chunk sizes, at the addressed entry point (and,
// in the thorough tier, at the package-level entry point of the same codec).
func enum(e *core.EnumCtx) {
	corpus := buildCorpus(e.Tier)
	maxMsg := 1 << 20
	bitStride := 1
	if e.Tier != "thorough" {
		maxMsg = 300 // quick: messages longer than this get a strided enumeration
	}
	cases, nontriv := 0, 0
	faults := map[string]int{}
	probes := map[string]int{}
	reported := map[string]bool{}
	for ci, item := range corpus {
		if ci%e.Shards != e.Shard || e.Expired() || ci < e.FromGroup {
			continue
		}
		if simrt.Tainted {
			// a budget panic unwound the library in this process (see simrt.Tainted): the rest of the
			// shard is enumerated by a fresh process
			if e.Sum.Extra == nil {
				e.Sum.Extra = map[string]any{}
			}
			e.Sum.Extra["restart_from_group"] = float64(ci)
			break
		}
		e.Begin(fmt.Sprintf("%d:%s:%s", ci, item.e.name, item.desc))
		targets := []*entry{item.e}
		if e.Tier == "thorough" {
			if pe := byName["pkg.UnmarshalJSON"]; pe != nil && item.e.codec == "json" && pe != item.e {
				targets = append(targets, pe)
			}
			if pe := byName["pkg.GobDecode"]; pe != nil && item.e.codec == "gob" && pe != item.e {
				targets = append(targets, pe)
			}
		}
		msg := item.msg
		stride := 1
		if len(msg) > maxMsg {
			stride = len(msg)/maxMsg + 1
		}
		for _, target := range targets {
			rec := &core.Record{Mode: "enum"}
			c := &core.Ctx{Rec: rec, Tier: e.Tier, Steps: e.Steps}
			_, _, cleanSteps := readAndExercise(c, target, msg, 0)
			tryCase := func(f wire.Fault) {
				if cases&255 == 0 && e.Expired() {
					return
				}
				damaged := wire.Apply(msg, f, nil)
				cases++
				if string(damaged) == string(msg) {
					return
				}
				nontriv++
				faults[f.Kind]++
				if c.Failed() {
					// start from a fresh record after a reported violation
					rec = &core.Record{Mode: "enum"}
					c = &core.Ctx{Rec: rec, Tier: e.Tier, Steps: e.Steps}
				}
				val, err, _ := readAndExercise(c, target, damaged, cleanSteps)
				if err == nil && val != nil {
					probes["damaged_bytes_decoded_to_a_value"]++
				}
				if c.Failed() && !reported[rec.Viol.Class] {
					reported[rec.Viol.Class] = true
					rec.Plan = c.PlanOut
					rec.Sample = []string{fmt.Sprintf("corpus %d (%s), fault %s, reader %s", ci, item.desc, f.String(), target.name)}
					e.Emit(rec)
				}
			}
			if c.Failed() {
				if !reported[rec.Viol.Class] {
					reported[rec.Viol.Class] = true
					rec.Plan = c.PlanOut
					rec.Sample = []string{fmt.Sprintf("corpus %d (%s), no fault, reader %s", ci, item.desc, target.name)}
					e.Emit(rec)
				}
				rec = &core.Record{Mode: "enum"}
				c = &core.Ctx{Rec: rec, Tier: e.Tier, Steps: e.Steps}
			}
			for k := 0; k < len(msg); k++ { // every torn-write point, incl. 0 and 1 bytes
				if k > 8 && k < len(msg)-8 && k%stride != 0 {
					continue
				}
				tryCase(wire.Fault{Kind: wire.Truncate, A: k})
			}
			for bit := 0; bit < len(msg)*8; bit += bitStride {
				if stride > 1 && (bit/8)%stride != 0 {
					continue
				}
				tryCase(wire.Fault{Kind: wire.BitFlip, A: bit})
			}
			for _, cs := range []int{4, 16, 64} {
				n := (len(msg) + cs - 1) / cs
				for i := 0; i < n; i++ {
					if stride > 1 && i%stride != 0 {
						continue
					}
					tryCase(wire.Fault{Kind: wire.DropChunk, Chunk: cs, A: i})
					tryCase(wire.Fault{Kind: wire.DupChunk, Chunk: cs, A: i})
					tryCase(wire.Fault{Kind: wire.ZeroChunk, Chunk: cs, A: i})
				}
			}
			// record-level faults (wire/fields.go) on JSON messages: every text cut to 0..3 bytes and to
			// half, every value lost (null / absent), every value written over every other one and every
			// pair swapped (a stride keeps the pairs of one message under 6000)
			if spans := wire.Fields(msg); len(spans) > 1 {
				nStr := 0
				for _, sp := range spans {
					if sp.Kind == 's' {
						for _, keep := range []int{0, 1, 2, 3, (sp.Hi - sp.Lo - 2) / 2} {
							if keep < sp.Hi-sp.Lo-2 {
								tryCase(wire.Fault{Kind: wire.FieldTruncate, A: nStr, B: keep})
							}
						}
						nStr++
					}
				}
				n := len(spans) - 1
				for i := 0; i < n; i++ {
					tryCase(wire.Fault{Kind: wire.FieldLost, A: i, B: 0})
					tryCase(wire.Fault{Kind: wire.FieldLost, A: i, B: 1})
				}
				pstride := n*(n+1)/6000 + 1
				pi := 0
				for i := 0; i < n; i++ {
					for j := 0; j <= n; j++ {
						if pi++; pi%pstride != 0 {
							continue
						}
						tryCase(wire.Fault{Kind: wire.FieldMisdirect, A: i, B: j})
						if j > i+1 {
							tryCase(wire.Fault{Kind: wire.FieldSwap, A: i, B: j - 1})
						}
					}
				}
			}
		}
	}
	if e.Sum.Extra == nil {
		e.Sum.Extra = map[string]any{}
	}
	e.Sum.Faults = core.AddCounts(e.Sum.Faults, faults)
	e.Sum.Probes = core.AddCounts(e.Sum.Probes, probes)
	e.Sum.Extra["enum_cases"] = float64(cases)
	// each (corpus message, reader, single fault) triple is enumerated once; it is
	// counted as non-trivial when the damaged bytes differ from the clean bytes
	e.Sum.Extra["enum_distinct_nontrivial"] = float64(nontriv)
	e.Sum.Extra["enum_corpus_messages"] = float64(len(corpus)) / float64(e.Shards)
	e.Sum.Extra["enum_entry_points"] = fmt.Sprint(len(entries))
	_ = json.Marshal
}
