// Package c12 checks property C12: read-only operations never modify their
// arguments and are race-free (DESIGN.md §3).
//
// System under simulation: N caller goroutines (tasks) applying read-only
// operations to one shared vocabulary value while decoding private inputs,
// under the seeded scheduler of package sched. Oracles: O1 data race
// (ThreadSanitizer, in the sim-race binary; the process dies and the parent
// classifies the report), O2 write-freedom (deep fingerprint of everything
// reachable from the shared values, incl. spare slice capacity, at context
// switches and operation boundaries), O3 sequential equivalence (every result
// equals the sequential one; the sequential pass runs twice before and once
// after the concurrent phase).
package c12

import (
	"encoding/gob"
	"encoding/json"
	"fmt"
	"os"
	"reflect"
	"strings"
	"sync"
	"time"

	ap "github.com/go-ap/activitypub"
	"github.com/go-ap/activitypub/verifsim"

	"verif.local/sim/core"
	"verif.local/sim/gen"
	"verif.local/sim/gobcanon"
	"verif.local/sim/sched"
	"verif.local/sim/simrt"
	"verif.local/sim/wire"
)

func init() {
	core.Register(&core.Prop{
		ID: "C12",
		Modes: []core.ModeSpec{
			{Name: "random-walk", Weight: 3},
			{Name: "preempt", Weight: 2},
			{Name: "site", Weight: 3},
			{Name: "pct", Weight: 2},
		},
		Run: run,
	})
}

// state shared between the scheduler hook (norace) and the run.
var (
	cur        *sched.S
	fpRoots    [3]any
	fpBase     uint64
	fpViolated bool
	fpTask     int
	fpSite     uint32
	fpStep     int64
	fpOp       string
	curOp      []string // operation in progress per task
	parkedSite []uint32
	pairSet    map[uint64]struct{}
	lastTask   int
)

//go:norace
func hook(site uint32) {
	if hookCalls++; hookCalls&(1<<22-1) == 0 {
		// (a long run that keeps executing library statements is making progress: the wall-clock
		// watchdog is for loops outside the instrumented statements)
		simrt.Progress.Add(1)
	}
	if s := cur; s != nil {
		s.Yield(site)
	} else {
		simrt.Hook(site)
	}
}

//go:norace
func blockedHook() {
	if s := cur; s != nil {
		s.Blocked()
	} else {
		simrt.Blocked()
	}
}

var hookCalls uint64

// check is the O2 oracle inside the concurrent phase: called by the scheduler
// on the running task's goroutine at switches and operation boundaries.
//
//go:norace
func check(task int, site uint32, step int64) {
	if fpViolated {
		return
	}
	if gen.Fingerprint(fpRoots[0], fpRoots[1], fpRoots[2]) != fpBase {
		fpViolated = true
		fpTask, fpSite, fpStep = task, site, step
		if task >= 0 && task < len(curOp) {
			fpOp = curOp[task]
		}
	}
}

// canary: a harness-owned byte written by one task and read by another. It
// proves that the race oracle is live in the very binary that runs the batch.
var canaryArr [64]byte

func canaryWrite() string {
	for i := range canaryArr {
		canaryArr[i]++
	}
	return "w"
}

func canaryRead() string {
	n := 0
	for i := range canaryArr {
		n += int(canaryArr[i])
	}
	if n < 0 {
		return "r-"
	}
	return "r"
}

// ColdEvery: run indices that are multiples of it are cold-start runs.
const ColdEvery = 33 // (coprime with the worker count, so that the cold-start runs spread over all workers)

const keptChangedMarker = "KEPT-VALUE-CHANGED-SINCE-DECODE: "

// keptChanged scans results for the marker an inspect-kept operation leaves
// when a value a task decoded earlier is no longer what the decoder returned.
func keptChanged(c *core.Ctx, phase string, plans []taskPlan, res [][]string) {
	for ti := range res {
		for oi, r := range res[ti] {
			if strings.HasPrefix(r, keptChangedMarker) && !c.Failed() {
				line := r[len(keptChangedMarker):]
				if i := strings.Index(line, "\n"); i >= 0 {
					line = line[:i]
				}
				c.Fail("decoded-value", "C12/decoded-value-changed/"+gen.PathClass(line), "%s: task %d: %s: a value this task decoded earlier changed after later decode calls (its own or another task's): %s", phase, ti, plans[ti].ops[oi].name, line)
			}
		}
	}
}

// resultAliases scans results for the marker an encoder operation leaves when
// the bytes it returned share memory with the shared value.
func resultAliases(c *core.Ctx, phase string, plans []taskPlan, res [][]string) {
	for ti := range res {
		for oi, r := range res[ti] {
			if strings.Contains(r, aliasMarker) && !c.Failed() {
				c.Fail("alias", "C12/result-shares-memory/"+opKind(plans[ti].ops[oi].name), "%s: task %d: the bytes returned by %s share memory with the value that was encoded: the operation itself writes nothing, but a caller that appends to or edits its own result writes into the shared value, and two such callers race", phase, ti, plans[ti].ops[oi].name)
			}
		}
	}
}

// writeClass names what was written: the last field on the path, or "list-argument[]" when the
// difference is in a list the operation was handed as an argument (third fingerprint root).
func writeClass(d string) string {
	cls := gen.PathClass(d)
	if strings.HasPrefix(d, "[2]") && !strings.Contains(cls, ".") {
		return "list-argument[]"
	}
	return cls
}

// clockDeltas: what a clock can do between two looks at it – tick, run on for a while (past any
// sensible expiry), be set back by NTP or an operator.
var clockDeltas = []time.Duration{time.Second, time.Minute, 11 * time.Minute, time.Hour, 25 * time.Hour, 366 * 24 * time.Hour, -time.Second, -time.Hour}

// namedFamily: the operation belongs to one of the families the property names – encoding,
// comparing, formatting, inspecting, viewing through On*/To*. Their results are functions of the
// value alone.
func namedFamily(name string) bool {
	k := opKind(name)
	if i := strings.LastIndex(k, "."); i >= 0 {
		k = k[i+1:]
	}
	for _, p := range []string{"Marshal", "GobEncode", "ItemsEqual", "Equals", "Format", "String", "IsNil", "NotEmpty", "Is", "Contains", "Count", "First", "Get", "On", "To", "DerefItem", "ItemsMatch", "IRIs", "Collection", "Normalize", "%"} {
		if strings.HasPrefix(k, p) {
			return true
		}
	}
	return strings.HasPrefix(name, "fmt") || strings.HasPrefix(name, "inspect")
}

type taskPlan struct {
	ops []*op
}

func opKind(name string) string {
	if i := strings.Index(name, "("); i > 0 {
		name = name[:i]
	}
	return name
}

func run(c *core.Ctx) {
	t := c.Tape
	canary := os.Getenv("VERIF_CANARY") == "1"
	// ---- knobs: extension hooks set (by the main goroutine, before anything runs) or left alone
	restore, hooksOn := gen.WithHooks(t)
	defer restore()
	if hooksOn {
		c.Probe("extension_hooks_installed")
	}
	// ---- shared values (built by the main goroutine before anything runs)
	k := gen.DrawKnobs(t)
	// (list members always carry ids; with the IDless knob a single embedded object may lack id and type)
	g := gen.New(t, k)
	pos0 := len(t.Recorded())
	v := g.Top()
	seg := t.Recorded()[pos0:]
	var w ap.Item
	switch t.Draw(5) {
	case 0:
		w = v // compared with itself
	case 1:
		w = gen.New(core.ReplayTape(nil), k).Top() // smallest value of the generator
	case 2:
		// a structural twin of v in its own memory (same draws, fresh generator): comparisons go deep
		w = gen.New(core.ReplayTape(seg), k).Top()
		c.Probe("w_is_structural_twin_of_v")
	default:
		w = gen.New(t, k).Top()
	}
	xl, busy := false, false
	if !canary && c.RunIndex%ColdEvery != 0 && t.Bool(1, 48) {
		// a busy list: code that treats long lists differently (chunked scans, helper goroutines,
		// indexes built past a threshold) only shows itself on one. v is a collection (or a bare list)
		// with 129..600 member ids, w holds the same members in another order (so that comparisons
		// and membership tests find what they look for)
		sizes := []int{129, 257, 129, 257, 129, 257, 600, 1100}
		if c.Tier == "thorough" {
			sizes = []int{129, 257, 257, 600, 600, 1100, 1100, 2100}
		}
		n := sizes[t.Draw(len(sizes))]
		xl = n >= 600 // (comparing two lists of 600 members is 360 000 item comparisons: left to the runs with 129 and 257)
		busy = true
		members := make(ap.ItemCollection, n)
		for i := range members {
			if i > 0 && t.Bool(1, 8) {
				// (not all members are alike: an embedded note among the ids, as in a page of replies)
				members[i] = &ap.Object{ID: g.IRI(), Type: ap.NoteType, Content: ap.DefaultNaturalLanguageValue("reply")}
			} else {
				members[i] = g.IRI()
			}
		}
		rot := make(ap.ItemCollection, n)
		for i := range rot {
			rot[i] = members[(i+n/3)%n]
		}
		kindOfList := t.Draw(3)
		if xl && kindOfList != 2 {
			// (comparing two lists of more than a thousand members is quadratic by design: the XL runs
			// keep to encoders, membership and inspection)
			kindOfList = 2
		}
		switch kindOfList {
		case 0:
			v, w = members, rot
		case 1:
			v = &ap.OrderedCollection{ID: g.IRI(), Type: ap.OrderedCollectionType, OrderedItems: members, TotalItems: uint(n)}
			w = &ap.OrderedCollection{ID: v.GetLink(), Type: ap.OrderedCollectionType, OrderedItems: rot, TotalItems: uint(n)}
		default:
			v = &ap.Collection{ID: g.IRI(), Type: ap.CollectionType, Items: members, TotalItems: uint(n)}
			w = members[n-2]
		}
		c.Probe("busy_list_run")
	}
	e := &env{v: v, w: w, vSize: structSize(v), subs: findSubs(v)}
	c.Logf("v=%T w=%T knobs=%+v", v, w, k)

	// ---- tasks and their operations (all draws happen here)
	nTasks := 2 + t.Draw(5)
	if t.Bool(1, 8) && !busy {
		// a busy server: 8..12 request goroutines on the same value
		nTasks = 8 + t.Draw(5)
	}
	maxOps := 1 + t.Draw(6)
	defs := e.catalogue()
	if xl {
		lin := defs[:0:0]
		for _, d := range defs {
			if !strings.Contains(d.name, "Equal") {
				lin = append(lin, d)
			}
		}
		defs = lin
	}
	plans := make([]taskPlan, nTasks)
	notDriven := 0
	buildTask := func(t *core.Tape, ti int) []*op {
		var ops []*op
		nOps := 1 + t.Draw(maxOps)
		var later []*op
		for oi := 0; oi < nOps; oi++ {
			var o *op
			switch x := t.Draw(10); {
			case x < 6:
				for try := 0; try < 4 && o == nil; try++ {
					d := defs[t.Draw(len(defs))]
					if oo, ok := e.instantiate(t, d); ok {
						o = oo
					} else {
						notDriven++
					}
				}
			case x < 7:
				o = e.formatOp(t)
			case x < 8:
				o = e.genericOp(t)
			default:
				var insp *op
				o, insp = decodeOp(t, ti)
				if insp != nil {
					later = append(later, insp)
				}
			}
			if o == nil {
				o = e.formatOp(t)
			}
			ops = append(ops, o)
		}
		// values a task decoded and kept are looked at again after its other operations (and,
		// under a schedule, after whatever the other tasks decoded in between)
		return append(ops, later...)
	}
	coldRun := c.RunIndex%ColdEvery == 0
	if coldRun {
		// cold-start run: every task performs the SAME operations (each with its own instances), so
		// that whatever the first of them initialises lazily is reached by several tasks at once
		pos0 := len(t.Recorded())
		plans[0].ops = append(e.coreOps(), buildTask(t, 0)...)
		seg := t.Recorded()[pos0:]
		for ti := 1; ti < nTasks; ti++ {
			plans[ti].ops = append(e.coreOps(), buildTask(core.ReplayTape(seg), ti)...)
		}
	} else {
		for ti := range plans {
			plans[ti].ops = buildTask(t, ti)
		}
	}
	if canary {
		plans = []taskPlan{{ops: []*op{{name: "canaryWrite", run: canaryWrite}}}, {ops: []*op{{name: "canaryRead", run: canaryRead}}}}
		nTasks = 2
	}
	for ti, p := range plans {
		names := make([]string, len(p.ops))
		for i, o := range p.ops {
			names[i] = o.name
		}
		c.Logf("task %d: %s", ti, strings.Join(names, " ; "))
		c.Rec.Ops += len(p.ops)
		for _, o := range p.ops {
			c.Count("operations_driven", opKind(o.name))
		}
	}

	// ---- clock faults (1 run in 6): the simulated clock jumps – forwards by a second up to a year,
	// or backwards – between the passes and after the k-th clock read inside the concurrent phase.
	// On the pinned tree nothing reads the clock; a change that starts to (a cache with an expiry)
	// meets expiry and skew here instead of never within the milliseconds a run takes.
	clockFault := !canary && t.Bool(1, 6)
	var clockJumps [4]time.Duration
	var clockJumpAfter int64
	if clockFault {
		for i := range clockJumps {
			clockJumps[i] = clockDeltas[t.Draw(len(clockDeltas))]
		}
		clockJumpAfter = int64(1 + t.Draw(12))
		c.Logf("clock faults: %v between pass 1 and 2, %v before the concurrent phase, %v after %d more clock reads, %v before the last pass", clockJumps[0], clockJumps[1], clockJumps[2], clockJumpAfter, clockJumps[3])
	}
	reads0 := simrt.ClockReadCount()
	jump := func(i int) {
		if clockFault {
			simrt.JumpClock(clockJumps[i])
			c.Fault("clock_jump")
		}
	}
	// an operation whose result may depend on the time of the call: it read the clock and is not one
	// of the families the property names (encode, compare, format, inspect, view) – a constructor
	// that stamps the current time is not a read-only operation on a value. Only in clock-fault
	// runs, only for such operations, the cross-pass comparisons are skipped.
	timeDependent := func(ti, oi int) bool {
		o := plans[ti].ops[oi]
		return o.noCompare || (clockFault && o.readsClock && !namedFamily(o.name))
	}

	// ---- O2 baseline, before anything touches the values
	// (the third root: the list arguments the operations are handed – shared by all tasks, and as
	// much "arguments" of the read-only operations as the values are)
	args := e.argLists
	fpRoots = [3]any{v, w, args}
	sharedBytes = gen.ByteRanges(v, w)
	fpBase = gen.Fingerprint(v, w, args)
	baseDump := gen.DumpLines([]any{v, w, args}, true)
	fpViolated, fpOp = false, ""
	reportWrite := func(phase, opName string) {
		now := gen.DumpLines([]any{v, w, args}, true)
		d := gen.Diff(baseDump, now)
		c.Fail("write", "C12/write/"+writeClass(d), "%s: %s changed the shared value: %s", phase, opName, d)
	}

	// ---- O3 reference: the sequential pass, bracketed operation by operation
	cur = nil
	verifsim.Hook = hook
	verifsim.BlockedHook = blockedHook
	siteTraces := make([][]uint32, nTasks)
	seqPass := func(phase string, perOp bool) ([][]string, []int64) {
		res := make([][]string, nTasks)
		steps := make([]int64, nTasks)
		for ti, p := range plans {
			if perOp {
				siteTraces[ti] = siteTraces[ti][:0]
				simrt.Trace = &siteTraces[ti]
			}
			res[ti] = make([]string, len(p.ops))
			for oi, o := range p.ops {
				s0, r0 := simrt.Steps, simrt.ClockReadCount()
				r, perr := guardedRun(o)
				steps[ti] += simrt.Steps - s0
				if simrt.ClockReadCount() != r0 {
					o.readsClock = true
				}
				if perr != "" {
					// a panic that also happens sequentially is not C12's subject (C04/C20): it is
					// just this operation's outcome, and must be the same under every schedule
					c.Probe("operation_panics_sequentially")
				}
				res[ti][oi] = r
				if perOp && gen.Fingerprint(v, w, args) != fpBase {
					reportWrite(phase, o.name)
					return res, steps
				}
			}
		}
		simrt.Trace = nil
		if !perOp && gen.Fingerprint(v, w, args) != fpBase {
			reportWrite(phase, "(some operation of this pass)")
		}
		finalizeAll(res)
		return res, steps
	}
	// cold-start runs: every 33rd run index runs its concurrent phase FIRST, before any sequential
	// pass; the parent starts a fresh child process at those indices (race batch), so that
	// whatever the library initialises lazily on first use is initialised by racing tasks, not
	// by the reference pass
	cold := c.RunIndex%ColdEvery == 0 && !canary
	if cold {
		c.Probe("cold_start_run")
	}
	var ref, ref2 [][]string
	taskSteps := make([]int64, nTasks)
	if !canary && !cold {
		ref, taskSteps = seqPass("sequential pass 1", true)
		keptChanged(c, "sequential pass 1", plans, ref)
		resultAliases(c, "sequential pass 1", plans, ref)
		if c.Failed() {
			finish(c, nil, nil)
			return
		}
		jump(0)
		ref2, _ = seqPass("sequential pass 2", false)
		if c.Failed() {
			finish(c, nil, nil)
			return
		}
	}
	if ti, oi := firstDiff(ref, ref2, timeDependent); ti >= 0 {
		o := plans[ti].ops[oi]
		c.Fail("sequential", "C12/second-call/"+opKind(o.name), "%s gives another result when called a second time on the same value: %q then %q", o.name, clip(ref[ti][oi]), clip(ref2[ti][oi]))
		finish(c, nil, nil)
		return
	}

	// ---- the concurrent phase under the seeded scheduler
	var total int64
	for _, s := range taskSteps {
		total += s
	}
	cfg := sched.Config{Tasks: nTasks, Seed: uint64(t.Draw(1<<30)) + 1, CheckEvery: []int{1, 4, 16, 64}[t.Draw(4)], JournalFd: -1}
	if busy {
		// (a fingerprint of hundreds of members at every switch would dominate the run)
		cfg.CheckEvery = 64
	}
	if jf, ok := core.JournalFile.(*os.File); ok && jf != nil {
		cfg.JournalFd = int(jf.Fd())
	}
	mode := c.Mode
	if cold {
		// no dry run yet: the policies that need its step counts are replaced by the random walk
		total = 20000
		mode = "random-walk"
	}
	switch {
	case c.Replay:
		cfg.Policy = sched.PolicyReplay
		for _, sw := range c.Schedule {
			cfg.Replay = append(cfg.Replay, sched.Switch2{Step: sw[0], Task: int(sw[1])})
		}
	case mode == "preempt":
		cfg.Policy = sched.PolicyPreempt
		cfg.PreemptAt = make([][]int64, nTasks)
		d := 1 + t.Draw(4)
		for i := 0; i < d; i++ {
			ti := t.Draw(nTasks)
			if taskSteps[ti] > 0 {
				cfg.PreemptAt[ti] = append(cfg.PreemptAt[ti], 1+int64(t.Draw(int(min64(taskSteps[ti], 1<<30)))))
			}
		}
		for ti := range cfg.PreemptAt {
			sortInt64(cfg.PreemptAt[ti])
		}
	case mode == "site":
		// preempt *inside each helper*: the preemption point is drawn uniformly over the distinct
		// sites a task visits in the dry run (not over its steps, which favours hot loops), then
		// over the occurrences of that site
		cfg.Policy = sched.PolicyPreempt
		cfg.PreemptAt = make([][]int64, nTasks)
		d := 1 + t.Draw(3)
		for i := 0; i < d; i++ {
			ti := t.Draw(nTasks)
			tr := siteTraces[ti]
			if len(tr) == 0 {
				continue
			}
			first := map[uint32]bool{}
			var distinct []uint32
			for _, sID := range tr {
				if !first[sID] {
					first[sID] = true
					distinct = append(distinct, sID)
				}
			}
			target := distinct[t.Draw(len(distinct))]
			var occ []int64
			for idx, sID := range tr {
				if sID == target {
					occ = append(occ, int64(idx)+1)
				}
			}
			cfg.PreemptAt[ti] = append(cfg.PreemptAt[ti], occ[t.Draw(len(occ))])
		}
		for ti := range cfg.PreemptAt {
			sortInt64(cfg.PreemptAt[ti])
		}
	case mode == "pct":
		cfg.Policy = sched.PolicyPCT
		d := 1 + t.Draw(3)
		for i := 0; i < d; i++ {
			cfg.ChangeAt = append(cfg.ChangeAt, 1+int64(t.Draw(int(min64(total+1, 1<<30)))))
		}
		sortInt64(cfg.ChangeAt)
	default:
		cfg.Policy = sched.PolicyRandomWalk
		cfg.Denom = []int{4, 16, 64, 256}[t.Draw(4)]
		if busy && cfg.Denom < 64 {
			cfg.Denom = 64
		}
		if cold && cfg.Denom < 16 {
			// every task runs the core operations plus the drawn ones: keep the number of switches in hand
			cfg.Denom = 16
		}
	}
	s, err := sched.New(cfg)
	if err != nil {
		c.Fail("harness", "C12/harness/pipe", "%v", err)
		return
	}
	jump(1)
	if clockFault {
		simrt.ArmClockJump(clockJumpAfter, clockJumps[2])
	}
	defer s.Close()
	s.Check = check
	curOp = make([]string, nTasks)
	got := make([][]string, nTasks)
	panics := make([]string, nTasks)
	var wg sync.WaitGroup
	cur = s
	for ti := range plans {
		got[ti] = make([]string, len(plans[ti].ops))
		wg.Add(1)
		go taskMain(s, ti, plans[ti].ops, got[ti], &panics[ti], &wg)
	}
	s.Start()
	wg.Wait()
	cur = nil
	finalizeAll(got)
	simrt.Steps += s.Step()
	c.Rec.Switches = int64(len(s.Switches))
	for _, sw := range s.Switches {
		c.Schedule = append(c.Schedule, [2]int64{sw.Step, int64(sw.To)})
	}
	if canary {
		c.Logf("canary run finished without a race report")
		finish(c, s, got)
		return
	}

	// ---- oracles over the recorded history
	_ = panics
	if fpViolated && !c.Failed() {
		site := "operation boundary"
		if int(fpSite) < len(verifsim.Sites) {
			site = verifsim.Sites[fpSite]
		}
		now := gen.DumpLines([]any{v, w, args}, true)
		d := gen.Diff(baseDump, now)
		if d == "" {
			d = "(restored before the end of the run: a write-then-restore sequence)"
		}
		c.Fail("write", "C12/write/"+writeClass(d), "under the schedule, at step %d (task %d, %s) the shared value differed from its initial state while %s was running: %s", fpStep, fpTask, site, fpOp, d)
	}
	if !c.Failed() && gen.Fingerprint(v, w, args) != fpBase {
		reportWrite("after the join", "(some operation of the concurrent phase)")
	}
	if cold && !c.Failed() {
		// the reference passes come after the concurrent phase in a cold-start run
		ref, _ = seqPass("sequential pass 1 (after the cold concurrent phase)", true)
		if !c.Failed() {
			ref2, _ = seqPass("sequential pass 2", false)
		}
		if !c.Failed() {
			if ti, oi := firstDiff(ref, ref2, timeDependent); ti >= 0 {
				o := plans[ti].ops[oi]
				c.Fail("sequential", "C12/second-call/"+opKind(o.name), "%s gives another result when called a second time on the same value: %q then %q", o.name, clip(ref[ti][oi]), clip(ref2[ti][oi]))
			}
		}
	}
	keptChanged(c, "under the schedule", plans, got)
	resultAliases(c, "under the schedule", plans, got)
	if !c.Failed() {
		if ti, oi := firstDiff(ref, got, timeDependent); ti >= 0 {
			o := plans[ti].ops[oi]
			c.Fail("diverge", "C12/diverge/"+opKind(o.name), "task %d: %s returned %q under the schedule but %q sequentially", ti, o.name, clip(got[ti][oi]), clip(ref[ti][oi]))
		}
	}
	if !c.Failed() {
		verifsim.Hook = hook
		jump(3)
		ref3, _ := seqPass("sequential pass 3 (after the join)", false)
		if !c.Failed() {
			if ti, oi := firstDiff(ref, ref3, timeDependent); ti >= 0 {
				o := plans[ti].ops[oi]
				c.Fail("sequential", "C12/second-call/"+opKind(o.name), "%s gives another result after the concurrent phase: %q then %q", o.name, clip(ref[ti][oi]), clip(ref3[ti][oi]))
			}
		}
	}
	if simrt.ClockReadCount() != reads0 {
		c.Probe("library_read_the_clock")
		if simrt.ClockJumps > 0 {
			c.Probe("clock_jumped_between_two_reads_of_the_concurrent_phase")
		}
	}
	for _, n := range e.notDriven {
		if strings.HasPrefix(n, "pkg.") {
			c.Count("catalogue_entries_not_synthesisable", n)
		} else {
			c.Count("catalogue_entries_not_synthesisable", n[strings.LastIndex(n, ".")+1:]+" (method)")
		}
	}
	if notDriven > 0 {
		c.Rec.Probes = core.AddCounts(c.Rec.Probes, map[string]int{"catalogue_entry_not_synthesisable": notDriven})
	}
	finish(c, s, got)
}

func finalizeAll(res [][]string) {
	for ti := range res {
		for oi := range res[ti] {
			res[ti][oi] = finalizeResult(res[ti][oi])
		}
	}
}

func min64(a, b int64) int64 {
	if a < b {
		return a
	}
	return b
}

func sortInt64(a []int64) {
	for i := 1; i < len(a); i++ {
		for j := i; j > 0 && a[j] < a[j-1]; j-- {
			a[j], a[j-1] = a[j-1], a[j]
		}
	}
}

func clip(s string) string {
	if len(s) > 300 {
		return s[:300] + "…"
	}
	return s
}

func firstDiff(a, b [][]string, skip func(ti, oi int) bool) (int, int) {
	for ti := range a {
		for oi := range a[ti] {
			if skip != nil && skip(ti, oi) {
				continue
			}
			if ti >= len(b) || oi >= len(b[ti]) || a[ti][oi] != b[ti][oi] {
				return ti, oi
			}
		}
	}
	return -1, -1
}

// guardedRun runs one operation under the panic oracle.
func guardedRun(o *op) (res string, perr string) {
	defer func() {
		if r := recover(); r != nil {
			frame, kind := simrt.PanicSite(r)
			perr = fmt.Sprintf("%s/%s", frame, kind)
			res = "PANIC(" + perr + ")"
		}
	}()
	return o.run(), ""
}

// taskMain is the body of one simulated caller goroutine.
func taskMain(s *sched.S, ti int, ops []*op, out []string, perr *string, wg *sync.WaitGroup) {
	defer wg.Done()
	s.Enter(ti)
	for oi, o := range ops {
		setCurOp(ti, o.name)
		s.OpBegin(ti, uint32(oi))
		r, pe := guardedRun(o)
		if pe != "" && *perr == "" {
			*perr = opKind(o.name) + "/" + pe
		}
		out[oi] = r
		s.OpEnd(ti, uint32(oi), 0)
	}
	s.Exit(ti)
}

//go:norace
func setCurOp(ti int, name string) { curOp[ti] = name }

// finish fills the record: interleaving hash, event-log hash, probes.
func finish(c *core.Ctx, s *sched.S, results [][]string) {
	if s == nil {
		c.Rec.CaseHash = core.HashStr(strings.Join(c.Trace, ";"))
		return
	}
	var sb strings.Builder
	for _, sw := range s.Switches {
		fmt.Fprintf(&sb, "%d>%d@%d;", sw.From, sw.To, sw.Site)
	}
	c.Rec.CaseHash = core.HashStr(sb.String())
	c.Rec.Nontriv = s.SwitchInsideOp > 0
	var lb strings.Builder
	for _, ev := range s.Events {
		fmt.Fprintf(&lb, "%d,%d,%d,%d,%d,%d;", ev.Seq, ev.Step, ev.Task, ev.Kind, ev.A, ev.B)
	}
	// the results observed under the schedule are part of the history (hashed here, from their
	// canonical form, rather than on the tasks' goroutines)
	for ti := range results {
		for oi := range results[ti] {
			fmt.Fprintf(&lb, "r%d.%d=%016x;", ti, oi, core.Hash64([]byte(results[ti][oi])))
		}
	}
	c.Rec.LogHash = core.HashStr(lb.String())
	c.Rec.Probes = core.AddCounts(c.Rec.Probes, map[string]int{"switch_inside_operation": int(s.SwitchInsideOp)})
	if s.ForeignYields > 0 {
		c.Rec.Probes["yields_on_goroutines_started_by_the_library"] += int(s.ForeignYields)
	}
	if s.BlockedPolls > 0 {
		c.Rec.Probes["task_blocked_on_lock_handed_over"] += int(s.BlockedPolls)
	}
	for _, pr := range s.Pairs {
		c.Rec.ExtraHashes = append(c.Rec.ExtraHashes, uint64(pr[0])<<32|uint64(pr[1]))
	}
	if c.Verbose {
		n := len(s.Switches)
		if n > 12 {
			n = 12
		}
		for _, sw := range s.Switches[:n] {
			site := "-"
			if int(sw.Site) < len(verifsim.Sites) {
				site = verifsim.Sites[sw.Site]
			}
			c.Logf("switch at step %d: task %d -> task %d (%s)", sw.Step, sw.From, sw.To, site)
		}
	}
}

// ---------------------------------------------------------------- decoding independent inputs

var shortTexts = []string{"Hi", "a", "ok", "é", "-", "x y", "longer text here", "<b>bold</b>", "12", ""}

// independentDoc writes an ActivityStreams document with encoding/json (not
// with the library), using admissible shapes the library's encoder never
// emits itself.
func independentDoc(t *core.Tape) []byte {
	txt := func() string { return shortTexts[t.Draw(len(shortTexts))] }
	langMap := func() map[string]string {
		m := map[string]string{}
		for _, l := range []string{"en", "fr", "de"}[:1+t.Draw(3)] {
			m[l] = txt()
		}
		return m
	}
	doc := map[string]any{
		"id":   fmt.Sprintf("https://independent.example/%d", t.Draw(1000)),
		"type": []string{"Note", "Article", "Person", "Create", "Collection"}[t.Draw(5)],
	}
	for _, prop := range []string{"name", "summary", "content", "preferredUsername"} {
		switch t.Draw(4) {
		case 0:
			doc[prop] = langMap()
		case 1:
			doc[prop] = txt()
		}
	}
	if t.Bool(1, 2) {
		doc["attributedTo"] = map[string]any{"id": "https://independent.example/actor", "type": "Person", "name": langMap()}
	}
	if t.Bool(1, 2) {
		doc["to"] = []string{"https://www.w3.org/ns/activitystreams#Public", "https://independent.example/followers"}
	}
	if t.Bool(1, 3) {
		doc["object"] = map[string]any{"id": "https://independent.example/o", "type": "Note", "content": langMap()}
	}
	b, _ := json.Marshal(doc)
	return b
}

// decodeOp builds "decode a private input": every task gets its own value,
// its own bytes and its own receiver. JSON inputs may be damaged by a wire
// fault (error paths then run concurrently too); gob inputs are canonicalised
// first (gobcanon), so that one seed yields one byte string.
func decodeOp(t *core.Tape, task int) (*op, *op) {
	k := gen.Knobs{MaxDepth: 1 + t.Draw(2), FieldP: 2 + t.Draw(6), MaxList: 2, Budget: 8, Links: true}
	g := gen.New(t, k)
	which := t.Draw(6)
	val := g.Top()
	var data []byte
	var name string
	var dec func([]byte) (any, error)
	switch which {
	case 5:
		// a document as a peer server writes it (gen/peerdoc.go: every @context form including a
		// declared @language, language maps, null members, odd ids, perturbed shapes)
		data = gen.PeerDoc(t)
		name = "pkg.UnmarshalJSON"
		dec = func(b []byte) (any, error) { return ap.UnmarshalJSON(b) }
	case 4:
		// a document from an independent writer, in shapes the library's own encoder does not
		// produce: language maps under the plain term, very short texts, nested objects
		data = independentDoc(t)
		name = "pkg.UnmarshalJSON"
		dec = func(b []byte) (any, error) { return ap.UnmarshalJSON(b) }
	case 0, 1:
		data, _ = ap.MarshalJSON(val)
		name = "pkg.UnmarshalJSON"
		dec = func(b []byte) (any, error) { return ap.UnmarshalJSON(b) }
	case 2:
		data, _ = ap.GobEncode(val)
		data = gobcanon.Canon(data)
		name = "pkg.GobDecode"
		dec = func(b []byte) (any, error) { return ap.GobDecode(b) }
	default:
		if m, ok := val.(json.Marshaler); ok {
			data, _ = m.MarshalJSON()
		}
		rt := reflect.TypeOf(val)
		if rt.Kind() == reflect.Pointer {
			rt = rt.Elem()
		}
		if ge, ok := val.(gob.GobEncoder); ok && t.Bool(1, 2) {
			// the type's own gob pair
			data, _ = ge.GobEncode()
			data = gobcanon.Canon(data)
			name = rt.Name() + ".GobDecode"
			dec = func(b []byte) (any, error) {
				p := reflect.New(rt)
				if u, ok := p.Interface().(gob.GobDecoder); ok {
					return p.Interface(), u.GobDecode(b)
				}
				return nil, nil
			}
			break
		}
		name = rt.Name() + ".UnmarshalJSON"
		dec = func(b []byte) (any, error) {
			p := reflect.New(rt)
			if u, ok := p.Interface().(json.Unmarshaler); ok {
				return p.Interface(), u.UnmarshalJSON(b)
			}
			return nil, nil
		}
	}
	damaged := false
	if which < 4 && t.Bool(1, 3) && len(data) > 0 {
		prog := wire.DrawProgram(t, len(data), 2, []string{wire.Truncate, wire.BitFlip, wire.DropChunk, wire.ZeroChunk})
		data = wire.Run(data, prog, nil)
		damaged = true
	}
	input := append([]byte{}, data...)
	label := fmt.Sprintf("decode:%s(private %d bytes, damaged=%v)", name, len(input), damaged)
	keep := t.Bool(1, 2)
	var kept any // the task's private variable holding what it decoded
	var keptDump string
	decode := &op{name: label, run: func() string {
		// the decoder gets its own copy every time: it may keep or modify what it is given
		b := append([]byte{}, input...)
		val, err := dec(b)
		res := &resultBuf{}
		if err != nil {
			res.sb.WriteString("err;")
		}
		dump := ""
		if val != nil {
			dump = strings.Join(gen.DumpLines(val, false), "\n")
			res.sb.WriteString(dump)
		}
		if keep {
			kept, keptDump = val, dump
		}
		return res.sb.String()
	}}
	if !keep {
		return decode, nil
	}
	// a decoded value belongs to the caller: nothing another goroutine decodes later may change it
	inspect := &op{name: fmt.Sprintf("inspect-kept:%s(%d bytes)", name, len(input)), run: func() string {
		if kept == nil {
			return "nil"
		}
		out := strings.Join(gen.DumpLines(kept, false), "\n")
		if out != keptDump {
			// what a decoder returned belongs to the caller; nothing decoded later may change it
			out = keptChangedMarker + gen.Diff(strings.Split(keptDump, "\n"), strings.Split(out, "\n")) + "\n" + out
		}
		if it, ok := kept.(ap.Item); ok {
			if b, err := ap.MarshalJSON(it); err == nil {
				out += "\njson=" + string(b)
			}
		}
		return out
	}}
	return decode, inspect
}
