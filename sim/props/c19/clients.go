package c19

import (
	"fmt"
	"strings"
	"sync"

	"github.com/go-ap/activitypub/verifsim"

	"verif.local/sim/core"
	"verif.local/sim/sched"
	"verif.local/sim/simrt"
)

// Mode "clients": two or three clients, each with lists of its own, run their
// histories and comparisons as tasks under the seeded scheduler (sim/sched).
// No list, no text slice is shared between clients, so every clause of the
// property holds for each of them exactly as it does sequentially, wherever
// the scheduler switches. What the mode adds is package-level state inside
// the library (a scratch slice reused between Equals calls, a memo): with one
// caller it is invisible, with two it makes one client's comparison use the
// other's marks. Each client draws from a tape of its own (seeded from the
// run's tape), so its history does not depend on the interleaving; the
// schedule is a random walk seeded from the run's tape: the run replays from
// its tape alone.

var curSched *sched.S

//go:norace
func clientsHook(site uint32) {
	if s := curSched; s != nil {
		s.Yield(site)
	} else {
		simrt.Hook(site)
	}
}

//go:norace
func clientsBlocked() {
	if s := curSched; s != nil {
		s.Blocked()
	} else {
		simrt.Blocked()
	}
}

func runClients(c *core.Ctx) {
	t := c.Tape
	n := 2 + t.Draw(2)
	type client struct {
		ctx    *core.Ctx
		rounds int
		equals bool
	}
	clients := make([]*client, n)
	for i := range clients {
		sub := *c
		sub.Tape = core.NewTape(uint64(t.Draw(1<<30))<<16 | uint64(i))
		sub.Trace = nil
		clients[i] = &client{ctx: &sub, rounds: 1 + t.Draw(4), equals: t.Bool(1, 2)}
	}
	cfg := sched.Config{Tasks: n, Seed: uint64(t.Draw(1<<30)) + 1, Policy: sched.PolicyRandomWalk, Denom: []int{4, 16, 64, 256}[t.Draw(4)], JournalFd: -1}
	s, err := sched.New(cfg)
	if err != nil {
		c.Fail("harness", "C19/harness/pipe", "%v", err)
		return
	}
	defer s.Close()
	oldHook, oldBlocked := verifsim.Hook, verifsim.BlockedHook
	verifsim.Hook, verifsim.BlockedHook = clientsHook, clientsBlocked
	curSched = s
	var wg sync.WaitGroup
	for i, cl := range clients {
		wg.Add(1)
		go func(i int, cl *client) {
			defer wg.Done()
			s.Enter(i)
			defer s.Exit(i)
			defer func() {
				if r := recover(); r != nil {
					if _, dead := r.(sched.DeadlockPanic); dead {
						c.Fail("deadlock", "C19/clients/deadlock", "every client is blocked on a lock another parked client holds")
						return
					}
					frame, kind := simrt.PanicSite(r)
					c.Fail("panic", "C19/panic/"+frame+"/"+kind, "client %d: %v", i, r)
				}
			}()
			for r := 0; r < cl.rounds && !c.Failed(); r++ {
				s.OpBegin(i, uint32(r))
				if cl.equals {
					runEquals(cl.ctx)
				} else {
					runHistory(cl.ctx)
				}
				s.OpEnd(i, uint32(r), 0)
			}
		}(i, cl)
	}
	s.Start()
	wg.Wait()
	curSched = nil
	verifsim.Hook, verifsim.BlockedHook = oldHook, oldBlocked
	simrt.Steps += s.Step()
	c.Rec.Switches = int64(len(s.Switches))
	c.Probe("clients_run")
	for i, cl := range clients {
		for _, l := range cl.ctx.Trace {
			c.Trace = append(c.Trace, fmt.Sprintf("client %d: %s", i, l))
		}
	}
	var sb strings.Builder
	for _, sw := range s.Switches {
		fmt.Fprintf(&sb, "%d>%d@%d;", sw.From, sw.To, sw.Site)
	}
	c.Rec.Nontriv = s.SwitchInsideOp > 0
	c.Rec.CaseHash = core.HashStr(strings.Join(c.Trace, ";") + sb.String())
}
