// Package c19 checks property C19: NaturalLanguageValues behaves as an ordered
// map from language tag to text (DESIGN.md §5.2).
//
// The workload is a seeded history of Set / Append / Add / Get / Count / First
// calls against the real container; the oracle is the property's relational
// statement, evaluated after every step against a reference state that is a
// plain list of (tag, text) pairs. Where the property leaves a choice open
// (what Set does to later entries with the same tag) every allowed successor
// is accepted and the reference adopts the observed one.
package c19

import (
	"bytes"
	"encoding/json"
	"fmt"
	"strings"

	ap "github.com/go-ap/activitypub"

	"verif.local/sim/core"
)

func init() {
	core.Register(&core.Prop{
		ID: "C19",
		Modes: []core.ModeSpec{
			{Name: "history", Weight: 15},
			{Name: "equals", Weight: 10},
			{Name: "clients", Weight: 1},
		},
		Run:  run,
		Enum: enum,
	})
}

// the first five tags are the core alphabet (nil tag, empty tag, plain tags); the
// rest widen it with region sub-tags of tags already present ("en-US" must not
// read as "en"), script sub-tags, upper case, three-letter tags – and make
// lists of up to 22 entries without a repeated tag possible
var baseTags = []ap.LangRef{ap.NilLangRef, "en", "fr", "", "de", "en-US", "EN", "zh-Hans", "ast", "es", "it", "pt-BR", "nl", "ja",
	// tags that are not well-formed BCP 47 but that applications do use as keys (POSIX locales, glibc
	// modifiers, a wildcard, a long private tag, a blank): a LangRef is any string
	"en_US", "sr@latin", "*", "x-private-extension", " ",
	// tags with a meaning of their own in BCP 47 / ActivityStreams: still just keys here
	"und", "mul", "zxx"}

// tags is the alphabet of the current run: baseTags, or – 1 run in 40, a "long" run – baseTags
// plus 114 synthetic tags, so that lists of up to 128 entries without a repeated tag exist and a
// history can grow a list past any small threshold (8, 16, 32, 64 entries) at which an
// implementation might switch to another representation
var tags = baseTags

var longTags = func() []ap.LangRef {
	out := append([]ap.LangRef(nil), baseTags...)
	for i := 0; len(out) < 128; i++ {
		tg := fmt.Sprintf("x%02d", i)
		if i%5 == 4 {
			tg += "-Latn"
		}
		out = append(out, ap.LangRef(tg))
	}
	return out
}()

var texts = []string{"", "a", "b", "hello", "héllo wörld", "line\\nbreak", "{\"k\":\"v\"}", "-", "<p>x</p>", "é\U0001F600",
	"HELLO",                        // differs from "hello" in case only
	longText + "1", longText + "2", // long texts that differ in their last byte only
	// not valid UTF-8: Latin-1, a text cut inside a character, two different invalid bytes (which a
	// "sanitising" container would turn into the same replacement character), a NUL
	"caf\xe9", "cut \xe2\x82", "\xff", "\xfe", "a\x00b",
}

var longText = strings.Repeat("0123456789abcdef", 20)

type pair struct {
	tag  ap.LangRef
	text []byte
	nilT bool // text is a nil Content (as opposed to empty non-nil)
}

func (p pair) String() string {
	if p.nilT {
		return fmt.Sprintf("(%q,nil)", string(p.tag))
	}
	return fmt.Sprintf("(%q,%q)", string(p.tag), p.text)
}

func renderPairs(ps []pair) string {
	ss := make([]string, len(ps))
	for i, p := range ps {
		ss[i] = p.String()
	}
	return "[" + strings.Join(ss, " ") + "]"
}

func snapshot(n ap.NaturalLanguageValues) []pair {
	out := make([]pair, len(n))
	for i, e := range n {
		out[i] = pair{tag: e.Ref, text: append([]byte(nil), e.Value...), nilT: e.Value == nil}
	}
	return out
}

func pairsEqual(a, b []pair) bool {
	if len(a) != len(b) {
		return false
	}
	for i := range a {
		if a[i].tag != b[i].tag || !bytes.Equal(a[i].text, b[i].text) {
			return false
		}
	}
	return true
}

func drawTag(t *core.Tape, nTags int) ap.LangRef { return tags[t.Draw(nTags)] }

// drawText returns a fresh copy every time so that the container can never
// alias a buffer the harness reuses.
func drawText(t *core.Tape, nTexts int) ap.Content {
	s := texts[t.Draw(nTexts)]
	return ap.Content(append([]byte{}, s...))
}

// textSource is how a caller comes by the text it hands to Set / Append / Add:
// mostly a fresh slice, but callers also copy a value from one language to
// another (`n.Set("fr", n.Get("en"))`) or pass the very same slice twice. The
// container may keep the slice it is given, so two entries can share one
// backing array; a later call must still leave the other entry's text alone.
type textSource struct {
	hugeUsed bool
	last     ap.Content // the slice handed over by the previous mutating call
}

func (ts *textSource) draw(c *core.Ctx, n ap.NaturalLanguageValues, nTags, nTexts int) ap.Content {
	t := c.Tape
	switch t.Draw(9) {
	case 8:
		if len(n) > 0 {
			// part of a text obtained from the container: a prefix, a suffix or a middle piece of what
			// is stored (shortening a text in place: n.Set("en", n.Get("en")[:15]))
			v := n.Get(n[t.Draw(len(n))].Ref)
			if len(v) >= 2 && len(v) < 64<<10 {
				lo := t.Draw(len(v) / 2)
				hi := len(v) - t.Draw(len(v)/2)
				v = v[lo:hi]
				c.Probe("text_is_part_of_an_entry")
				ts.last = v
				return v
			}
		}
	case 0:
		if len(n) > 0 {
			// a text obtained from the container itself
			if v := n.Get(n[t.Draw(len(n))].Ref); len(v) < 64<<10 {
				// (not the megabyte text: the harness snapshots the whole list after every step)
				c.Probe("text_aliases_an_entry")
				ts.last = v
				return v
			}
		}
	case 1:
		if ts.last != nil {
			c.Probe("same_slice_passed_twice")
			return ts.last
		}
	}
	if t.Bool(1, 24) {
		// a nil text (as opposed to an empty one)
		ts.last = nil
		return nil
	}
	if !ts.hugeUsed && len(n) < 8 && t.Bool(1, 1500) {
		// a very long text (a whole article: 1.2 or 3 MiB) – once per history and not remembered for
		// "the same slice again": the harness snapshots the whole list after every step
		v := ap.Content(bytes.Repeat([]byte("0123456789abcdef"), []int{78000, 196700}[t.Draw(2)]))
		v[len(v)-1] = byte('a' + t.Draw(26))
		c.Probe("text_over_a_mebibyte")
		ts.hugeUsed = true
		ts.last = nil
		return v
	}
	v := drawText(t, nTexts)
	ts.last = v
	return v
}

func firstWith(model []pair, tag ap.LangRef) (pair, bool) {
	for _, p := range model {
		if p.tag == tag {
			return p, true
		}
	}
	return pair{}, false
}

func run(c *core.Ctx) {
	if c.Tape.Bool(1, 6) {
		// the application has configured a default language: the containers must not care
		old := ap.DefaultLang
		ap.DefaultLang = []ap.LangRef{"en", "fr", "", "de"}[c.Tape.Draw(4)]
		c.Probe("default_lang_configured")
		defer func() { ap.DefaultLang = old }()
	}
	tags = baseTags
	if c.Tape.Bool(1, 40) {
		// (the synthetic tags differ from run to run: a process that has worked for a while has seen
		// thousands of distinct language tags, as a server has)
		p0, p1 := byte('a'+c.Tape.Draw(26)), byte('a'+c.Tape.Draw(26))
		lt := append([]ap.LangRef(nil), baseTags...)
		for i := 0; len(lt) < 128; i++ {
			tg := fmt.Sprintf("%c%c%02d", p0, p1, i)
			if i%5 == 4 {
				tg += "-Latn"
			}
			lt = append(lt, ap.LangRef(tg))
		}
		tags = lt
		c.Probe("long_run")
		defer func() { tags = baseTags }()
	}
	switch c.Mode {
	case "equals":
		runEquals(c)
	case "clients":
		runClients(c)
	default:
		runHistory(c)
	}
}

func runHistory(c *core.Ctx) {
	t := c.Tape
	// knobs (swarm style): alphabet sizes, initial contents, spare capacity, history length
	nTags := 2 + t.Draw(len(tags)-1)
	nTexts := 2 + t.Draw(len(texts)-1)
	var n ap.NaturalLanguageValues
	// bystanders: other lists alive at the same time, made the same way just before and just after
	// the list under test. No call is ever made on them: they must read the same after every step.
	var bystanders []ap.NaturalLanguageValues
	var decodeMore func() ap.NaturalLanguageValues
	switch t.Draw(6) {
	case 5: // came out of the JSON decoder, as did two bystanders; more documents are decoded as the history goes on
		dec := func() ap.NaturalLanguageValues {
			doc := map[string]string{}
			for i, k := 0, 1+t.Draw(3); i < k; i++ {
				doc[string(drawTag(t, nTags))] = string(drawText(t, nTexts))
			}
			raw, _ := json.Marshal(doc)
			var l ap.NaturalLanguageValues
			_ = l.UnmarshalJSON(raw)
			return l
		}
		bystanders = append(bystanders, dec())
		n = dec()
		bystanders = append(bystanders, dec())
		decodeMore = dec
		c.Probe("decoded_lists")
		c.Logf("init decoded %s", renderPairs(snapshot(n)))
	case 4: // made by the library's constructors, among other lists made the same way
		mk := func() ap.NaturalLanguageValues {
			if t.Bool(1, 2) {
				return ap.DefaultNaturalLanguageValue(string(drawText(t, nTexts)))
			}
			k := 1 + t.Draw(3)
			vals := make([]ap.LangRefValue, k)
			for i := range vals {
				vals[i] = ap.LangRefValueNew(drawTag(t, nTags), string(drawText(t, nTexts)))
			}
			return ap.NaturalLanguageValuesNew(vals...)
		}
		bystanders = append(bystanders, mk())
		n = mk()
		bystanders = append(bystanders, mk(), mk())
		if t.Bool(1, 2) {
			// lists made from one slice of defaults the caller keeps (spread with ...): the lists and the
			// caller's slice are four values of their own
			k := 2 + t.Draw(3)
			defaults := make([]ap.LangRefValue, k, k+2)
			for i := range defaults {
				defaults[i] = ap.LangRefValueNew(drawTag(t, nTags), string(drawText(t, nTexts)))
			}
			bystanders = append(bystanders, ap.NaturalLanguageValuesNew(defaults...))
			n = ap.NaturalLanguageValuesNew(defaults[:1+t.Draw(k)]...)
			bystanders = append(bystanders, ap.NaturalLanguageValuesNew(defaults...), ap.NaturalLanguageValues(defaults))
			c.Probe("lists_spread_from_one_slice")
		}
		c.Probe("constructor_made_lists")
		c.Logf("init by constructor %s, %d bystanders, the first: %s", renderPairs(snapshot(n)), len(bystanders), renderPairs(snapshot(bystanders[0])))
	case 0: // nil list
		c.Logf("init nil")
	case 1:
		n = ap.NaturalLanguageValues{}
		c.Logf("init empty")
	case 2: // literal contents, exact capacity
		k := 1 + t.Draw(3)
		if len(tags) > len(baseTags) {
			k = 1 + t.Draw(100)
		}
		n = make(ap.NaturalLanguageValues, 0, k)
		for i := 0; i < k; i++ {
			n = append(n, ap.LangRefValue{Ref: drawTag(t, nTags), Value: drawText(t, nTexts)})
		}
		c.Logf("init literal %s", renderPairs(snapshot(n)))
	case 3: // literal contents with spare capacity holding sentinel entries
		k := 1 + t.Draw(3)
		if len(tags) > len(baseTags) {
			k = 1 + t.Draw(100)
		}
		spare := 1 + t.Draw(3)
		n = make(ap.NaturalLanguageValues, 0, k+spare)
		for i := 0; i < k; i++ {
			n = append(n, ap.LangRefValue{Ref: drawTag(t, nTags), Value: drawText(t, nTexts)})
		}
		full := n[:k+spare]
		for i := k; i < k+spare; i++ {
			full[i] = ap.LangRefValue{Ref: "zz", Value: ap.Content("SENTINEL")}
		}
		c.Probe("spare_capacity_init")
		c.Logf("init literal+spare(%d) %s", spare, renderPairs(snapshot(n)))
	}
	model := snapshot(n)
	var bystanderModels [][]pair
	for _, b := range bystanders {
		bystanderModels = append(bystanderModels, snapshot(b))
	}
	ts := &textSource{}
	maxOps := 12
	if c.Tier == "thorough" {
		maxOps = 40
	}
	if len(tags) > len(baseTags) {
		maxOps = 150
	}
	nOps := 1 + t.Draw(maxOps)
	mutating := 0
	for i := 0; i < nOps && !c.Failed(); i++ {
		c.Rec.Ops++
		if decodeMore != nil && t.Bool(1, 3) {
			// the process decodes another document in between: nothing the lists at hand should notice
			other := decodeMore()
			bystanders = append(bystanders, other)
			bystanderModels = append(bystanderModels, snapshot(other))
			if !pairsEqual(snapshot(n), model) {
				c.Fail("model", "C19/list-changed-without-a-call", "decoding another document changed the list under test from %s to %s", renderPairs(model), renderPairs(snapshot(n)))
			}
		}
		switch t.Draw(6) {
		case 0: // Set
			tag, v := drawTag(t, nTags), ts.draw(c, n, nTags, nTexts)
			c.Logf("Set(%q,%q)", string(tag), []byte(v))
			_, had := firstWith(model, tag)
			vc := ap.Content(append([]byte{}, v...)) // the text as it was when the call was made
			_ = n.Set(tag, v)
			v = vc
			after := snapshot(n)
			mutating++
			if had {
				c.Probe("set_existing")
			} else {
				c.Probe("set_new")
			}
			checkSet(c, model, after, n, tag, v)
			model = after
		case 1: // Append
			tag, v := drawTag(t, nTags), ts.draw(c, n, nTags, nTexts)
			c.Logf("Append(%q,%q)", string(tag), []byte(v))
			if _, had := firstWith(model, tag); had {
				c.Probe("append_repeated_tag")
			}
			vc := append([]byte{}, v...)
			_ = n.Append(tag, v)
			mutating++
			want := append(append([]pair(nil), model...), pair{tag: tag, text: vc})
			after := snapshot(n)
			if !pairsEqual(after, want) {
				c.Fail("model", "C19/Append/appends-one-entry-at-end", "after Append(%q,%q) on %s the list is %s, want %s", string(tag), []byte(v), renderPairs(model), renderPairs(after), renderPairs(want))
			}
			model = after
		case 2: // Add
			tag, v := drawTag(t, nTags), ts.draw(c, n, nTags, nTexts)
			c.Logf("Add(%q,%q)", string(tag), []byte(v))
			vc := append([]byte{}, v...)
			n.Add(ap.LangRefValue{Ref: tag, Value: v})
			mutating++
			want := append(append([]pair(nil), model...), pair{tag: tag, text: vc})
			after := snapshot(n)
			if !pairsEqual(after, want) {
				c.Fail("model", "C19/Add/appends-one-entry-at-end", "after Add(%q,%q) on %s the list is %s, want %s", string(tag), []byte(v), renderPairs(model), renderPairs(after), renderPairs(want))
			}
			model = after
		case 3: // Get
			tag := drawTag(t, nTags)
			c.Logf("Get(%q)", string(tag))
			got := n.Get(tag)
			checkGet(c, model, tag, got, "Get")
			if !pairsEqual(snapshot(n), model) {
				c.Fail("model", "C19/Get/read-only", "Get(%q) changed the list from %s to %s", string(tag), renderPairs(model), renderPairs(snapshot(n)))
			}
		case 4: // Count
			c.Logf("Count()")
			if got := n.Count(); got != uint(len(model)) {
				c.Fail("model", "C19/Count/number-of-entries", "Count() = %d on %s, want %d", got, renderPairs(model), len(model))
			}
		case 5: // First
			c.Logf("First()")
			got := n.First()
			if len(model) == 0 {
				c.Probe("first_on_empty")
				// (the property does not say what First is on an empty list; it must not invent a text)
				if len(got.Value) != 0 {
					c.Fail("model", "C19/First/empty-list", "First() on the empty list = (%q,%q): a text that no entry holds", string(got.Ref), []byte(got.Value))
				}
			} else if got.Ref != model[0].tag || !bytes.Equal(got.Value, model[0].text) {
				c.Fail("model", "C19/First/first-entry", "First() = (%q,%q) on %s", string(got.Ref), []byte(got.Value), renderPairs(model))
			}
		}
		// cross-invariants after every step: every tag of the alphabet reads as the model says
		for bi, b := range bystanders {
			if !c.Failed() && !pairsEqual(snapshot(b), bystanderModels[bi]) {
				c.Fail("model", "C19/bystander-list-changed", "a call on one list changed another list on which no call was made: it held %s, now %s (the list under test: %s)", renderPairs(bystanderModels[bi]), renderPairs(snapshot(b)), renderPairs(snapshot(n)))
			}
		}
		if !c.Failed() {
			for _, tag := range tags[:nTags] {
				checkGet(c, model, tag, n.Get(tag), "Get(after step)")
			}
			if got := n.Count(); got != uint(len(model)) {
				c.Fail("model", "C19/Count/number-of-entries", "Count() = %d on %s, want %d", got, renderPairs(model), len(model))
			}
		}
	}
	c.Rec.Nontriv = mutating > 0
	c.Rec.CaseHash = core.HashStr(strings.Join(c.Trace, ";"))
}

func checkGet(c *core.Ctx, model []pair, tag ap.LangRef, got ap.Content, what string) {
	want, ok := firstWith(model, tag)
	if !ok {
		if got != nil {
			c.Fail("model", "C19/Get/nil-if-none", "%s(%q) = %q on %s, want nil (no entry has that tag)", what, string(tag), []byte(got), renderPairs(model))
		}
		return
	}
	if !bytes.Equal(got, want.text) {
		c.Fail("model", "C19/Get/first-entry-with-tag", "%s(%q) = %q on %s, want %q", what, string(tag), []byte(got), renderPairs(model), want.text)
	}
}

// checkSet evaluates the property's clause for Set(tag, v):
// Get(tag) returns v; every other tag's text and the order of entries is
// unchanged; the list grows by at most one.
func checkSet(c *core.Ctx, before, after []pair, n ap.NaturalLanguageValues, tag ap.LangRef, v ap.Content) {
	desc := fmt.Sprintf("Set(%q,%q) on %s gave %s", string(tag), []byte(v), renderPairs(before), renderPairs(after))
	if got := n.Get(tag); !bytes.Equal(got, v) {
		c.Fail("model", "C19/Set/get-returns-value", "%s: Get(%q) = %q", desc, string(tag), []byte(got))
		return
	}
	grow := len(after) - len(before)
	if grow < 0 || grow > 1 {
		c.Fail("model", "C19/Set/grows-by-at-most-one", "%s: length %d -> %d", desc, len(before), len(after))
		return
	}
	for i := range before {
		if after[i].tag != before[i].tag {
			c.Fail("model", "C19/Set/order-unchanged", "%s: entry %d changed its tag %q -> %q", desc, i, string(before[i].tag), string(after[i].tag))
			return
		}
		if before[i].tag != tag && !bytes.Equal(after[i].text, before[i].text) {
			c.Fail("model", "C19/Set/other-tags-untouched", "%s: entry %d (tag %q) changed its text", desc, i, string(before[i].tag))
			return
		}
	}
	if grow == 1 && after[len(after)-1].tag != tag {
		c.Fail("model", "C19/Set/other-tags-untouched", "%s: a new entry with another tag %q appeared", desc, string(after[len(after)-1].tag))
	}
}

// ---------------------------------------------------------------- equality

func runEquals(c *core.Ctx) {
	t := c.Tape
	nTags := 2 + t.Draw(len(tags)-1)
	nTexts := 2 + t.Draw(len(texts)-1)
	// list a: no repeated tags
	perm := permutation(t, nTags)
	la := t.Draw(nTags + 1)
	a := make(ap.NaturalLanguageValues, 0, la)
	for i := 0; i < la; i++ {
		a = append(a, ap.LangRefValue{Ref: tags[perm[i]], Value: drawText(t, nTexts)})
	}
	if la == 0 && t.Bool(1, 2) {
		a = nil
	}
	// list b: derived from a by a drawn transformation, or independent
	var b ap.NaturalLanguageValues
	kind := t.Draw(7)
	switch kind {
	case 0: // same entries, same order (independent copy)
		b = cloneNLV(a)
	case 1: // same entries, another order
		b = cloneNLV(a)
		shuffle(t, b)
	case 2: // one text changed
		b = cloneNLV(a)
		shuffle(t, b)
		if len(b) > 0 {
			i := t.Draw(len(b))
			b[i].Value = ap.Content(string(b[i].Value) + "!")
		}
	case 3: // one tag changed to a tag not in the list
		b = cloneNLV(a)
		shuffle(t, b)
		if len(b) > 0 && len(b) < len(tags) {
			i := t.Draw(len(b))
			used := map[ap.LangRef]bool{}
			for _, e := range b {
				used[e.Ref] = true
			}
			for _, tg := range tags {
				if !used[tg] {
					b[i].Ref = tg
					break
				}
			}
		}
	case 4: // one entry dropped
		b = cloneNLV(a)
		shuffle(t, b)
		if len(b) > 0 {
			i := t.Draw(len(b))
			b = append(b[:i:i], b[i+1:]...)
		}
	case 5: // one entry with a fresh tag added
		b = cloneNLV(a)
		if len(b) < len(tags) {
			used := map[ap.LangRef]bool{}
			for _, e := range b {
				used[e.Ref] = true
			}
			for _, tg := range tags {
				if !used[tg] {
					b = append(b, ap.LangRefValue{Ref: tg, Value: drawText(t, nTexts)})
					break
				}
			}
		}
		shuffle(t, b)
	default: // independent list
		perm2 := permutation(t, nTags)
		lb := t.Draw(nTags + 1)
		b = make(ap.NaturalLanguageValues, 0, lb)
		for i := 0; i < lb; i++ {
			b = append(b, ap.LangRefValue{Ref: tags[perm2[i]], Value: drawText(t, nTexts)})
		}
	}
	pa, pb := snapshot(a), snapshot(b)
	c.Logf("a=%s", renderPairs(pa))
	c.Logf("b=%s", renderPairs(pb))
	c.Rec.Ops = 4
	want := samePairSet(pa, pb)
	if len(a) >= 2 {
		c.Probe("equals_multi_entry")
	}
	if want && len(a) >= 2 {
		c.Probe("equals_true_multi_entry")
	}
	if got := a.Equals(b); got != want {
		c.Fail("model", "C19/Equals/same-pairs", "a.Equals(b) = %v, want %v; a=%s b=%s", got, want, renderPairs(pa), renderPairs(pb))
	}
	if got := b.Equals(a); got != want {
		c.Fail("model", "C19/Equals/same-pairs", "b.Equals(a) = %v, want %v; a=%s b=%s", got, want, renderPairs(pa), renderPairs(pb))
	}
	if !a.Equals(a) {
		c.Fail("model", "C19/Equals/reflexive", "a.Equals(a) = false; a=%s", renderPairs(pa))
	}
	if !b.Equals(b) {
		c.Fail("model", "C19/Equals/reflexive", "b.Equals(b) = false; b=%s", renderPairs(pb))
	}
	if !pairsEqual(snapshot(a), pa) || !pairsEqual(snapshot(b), pb) {
		c.Fail("model", "C19/Equals/read-only", "Equals changed an operand: a=%s b=%s", renderPairs(snapshot(a)), renderPairs(snapshot(b)))
	}
	c.Rec.Nontriv = len(a)+len(b) >= 2
	c.Rec.CaseHash = core.HashStr("eq;" + strings.Join(c.Trace, ";"))
}

func samePairSet(a, b []pair) bool {
	if len(a) != len(b) {
		return false
	}
	// no repeated tags inside one list (generator invariant), so set equality
	// is: every pair of a occurs in b
	for _, x := range a {
		found := false
		for _, y := range b {
			if x.tag == y.tag && bytes.Equal(x.text, y.text) {
				found = true
				break
			}
		}
		if !found {
			return false
		}
	}
	return true
}

func cloneNLV(a ap.NaturalLanguageValues) ap.NaturalLanguageValues {
	if a == nil {
		return nil
	}
	b := make(ap.NaturalLanguageValues, len(a))
	for i, e := range a {
		b[i] = ap.LangRefValue{Ref: e.Ref, Value: append(ap.Content{}, e.Value...)}
	}
	return b
}

func permutation(t *core.Tape, n int) []int {
	p := make([]int, n)
	for i := range p {
		p[i] = i
	}
	for i := n - 1; i > 0; i-- {
		j := t.Draw(i + 1)
		p[i], p[j] = p[j], p[i]
	}
	return p
}

func shuffle(t *core.Tape, b ap.NaturalLanguageValues) {
	for i := len(b) - 1; i > 0; i-- {
		j := t.Draw(i + 1)
		b[i], b[j] = b[j], b[i]
	}
}

// ---------------------------------------------------------------- bounded-exhaustive tier

// enumOp is one call of the exhaustive alphabet: kind 0 Set, 1 Append, 2 Add, 3 Get, 4 Count, 5 First.
type enumOp struct {
	Kind int `json:"k"`
	Tag  int `json:"t"`
	Text int `json:"x"`
}

type enumCase struct {
	Init int      `json:"init"` // 0 nil, 1 empty, 2 [("en","a")], 3 [("-","")] with spare capacity
	Ops  []enumOp `json:"ops"`
}

var (
	enumTags  = []ap.LangRef{ap.NilLangRef, "en", ""}
	enumTexts = []string{"", "a"}
)

func enumAlphabet() []enumOp {
	var out []enumOp
	for k := 0; k < 3; k++ {
		for t := range enumTags {
			for x := range enumTexts {
				out = append(out, enumOp{k, t, x})
			}
		}
	}
	for t := range enumTags {
		out = append(out, enumOp{3, t, 0})
	}
	return append(out, enumOp{4, 0, 0}, enumOp{5, 0, 0})
}

func enumInit(i int) ap.NaturalLanguageValues {
	switch i {
	case 1:
		return ap.NaturalLanguageValues{}
	case 2:
		return ap.NaturalLanguageValues{{Ref: "en", Value: ap.Content("a")}}
	case 3:
		n := make(ap.NaturalLanguageValues, 1, 3)
		n[0] = ap.LangRefValue{Ref: ap.NilLangRef, Value: ap.Content{}}
		full := n[:3]
		full[1] = ap.LangRefValue{Ref: "zz", Value: ap.Content("SENTINEL")}
		full[2] = full[1]
		return n
	}
	return nil
}

// runEnumCase executes one explicit history with the same per-step oracle as the seeded histories.
func runEnumCase(ec *enumCase, c *core.Ctx) {
	n := enumInit(ec.Init)
	model := snapshot(n)
	c.Logf("init %d %s", ec.Init, renderPairs(model))
	for _, o := range ec.Ops {
		if c.Failed() {
			return
		}
		tag := enumTags[o.Tag]
		v := ap.Content(append([]byte{}, enumTexts[o.Text]...))
		switch o.Kind {
		case 0:
			c.Logf("Set(%q,%q)", string(tag), []byte(v))
			_ = n.Set(tag, v)
			after := snapshot(n)
			checkSet(c, model, after, n, tag, v)
			model = after
		case 1, 2:
			name := "Append"
			if o.Kind == 2 {
				name = "Add"
				n.Add(ap.LangRefValue{Ref: tag, Value: v})
			} else {
				_ = n.Append(tag, v)
			}
			c.Logf("%s(%q,%q)", name, string(tag), []byte(v))
			want := append(append([]pair(nil), model...), pair{tag: tag, text: v})
			after := snapshot(n)
			if !pairsEqual(after, want) {
				c.Fail("model", "C19/"+name+"/appends-one-entry-at-end", "after %s(%q,%q) on %s the list is %s, want %s", name, string(tag), []byte(v), renderPairs(model), renderPairs(after), renderPairs(want))
			}
			model = after
		case 3:
			c.Logf("Get(%q)", string(tag))
			checkGet(c, model, tag, n.Get(tag), "Get")
		case 4:
			c.Logf("Count()")
			if got := n.Count(); got != uint(len(model)) {
				c.Fail("model", "C19/Count/number-of-entries", "Count() = %d on %s, want %d", got, renderPairs(model), len(model))
			}
		case 5:
			c.Logf("First()")
			got := n.First()
			if len(model) == 0 {
				if len(got.Value) != 0 {
					c.Fail("model", "C19/First/empty-list", "First() on the empty list = (%q,%q): a text that no entry holds", string(got.Ref), []byte(got.Value))
				}
			} else if got.Ref != model[0].tag || !bytes.Equal(got.Value, model[0].text) {
				c.Fail("model", "C19/First/first-entry", "First() = (%q,%q) on %s", string(got.Ref), []byte(got.Value), renderPairs(model))
			}
		}
		if !c.Failed() {
			for _, tg := range enumTags {
				checkGet(c, model, tg, n.Get(tg), "Get(after step)")
			}
			if !pairsEqual(snapshot(n), model) {
				c.Fail("model", "C19/Get/read-only", "a read changed the list from %s to %s", renderPairs(model), renderPairs(snapshot(n)))
			}
		}
	}
}

// enum: every history of length 1..L (L = 4 quick, 5 thorough) over the 23-letter alphabet
// {Set, Append, Add} x 3 tags x 2 texts + Get x 3 tags + Count + First, from four initial lists.
func enum(e *core.EnumCtx) {
	if len(e.OnlyCase) > 0 {
		var ec enumCase
		if err := json.Unmarshal(e.OnlyCase, &ec); err != nil {
			return
		}
		rec := &core.Record{Mode: "enum"}
		c := &core.Ctx{Rec: rec, Steps: e.Steps, Tier: e.Tier}
		func() {
			defer func() {
				if r := recover(); r != nil {
					rec.Viol = &core.Violation{Oracle: "panic", Class: "C19/panic", Detail: fmt.Sprint(r)}
				}
			}()
			runEnumCase(&ec, c)
		}()
		rec.Sample = c.Trace
		rec.Steps = *e.Steps
		e.Emit(rec)
		return
	}
	maxLen := 4
	if e.Tier == "thorough" {
		maxLen = 5
	}
	alpha := enumAlphabet()
	cases := 0
	reported := map[string]bool{}
	sampled := false
	// shard by (initial list, first letter)
	slot := 0
	for init := 0; init < 4; init++ {
		for first := range alpha {
			slot++
			if slot%e.Shards != e.Shard || e.Expired() {
				continue
			}
			e.Begin(fmt.Sprintf("init%d/first%d", init, first))
			ops := []enumOp{alpha[first]}
			var rec func()
			rec = func() {
				if cases&1023 == 0 && e.Expired() {
					return
				}
				ec := &enumCase{Init: init, Ops: ops}
				r := &core.Record{Mode: "enum"}
				c := &core.Ctx{Rec: r, Steps: e.Steps, Tier: e.Tier}
				func() {
					defer func() {
						if p := recover(); p != nil {
							r.Viol = &core.Violation{Oracle: "panic", Class: "C19/panic", Detail: fmt.Sprint(p)}
						}
					}()
					runEnumCase(ec, c)
				}()
				cases++
				if r.Viol != nil && !reported[r.Viol.Class] {
					reported[r.Viol.Class] = true
					raw, _ := json.Marshal(&enumCase{Init: init, Ops: append([]enumOp(nil), ops...)})
					r.Plan = &core.Plan{Property: "C19", Tier: e.Tier, Mode: "enum", Case: raw}
					r.Sample = c.Trace
					e.Emit(r)
				} else if r.Viol == nil && !sampled && len(ops) == maxLen && e.Shard == 0 {
					sampled = true
					r.Sample = c.Trace
					e.Emit(r)
				}
				if len(ops) == maxLen {
					return
				}
				for _, o := range alpha {
					ops = append(ops, o)
					rec()
					ops = ops[:len(ops)-1]
				}
			}
			rec()
		}
	}
	if e.Sum.Extra == nil {
		e.Sum.Extra = map[string]any{}
	}
	e.Sum.Extra["enum_cases"] = float64(cases)
	// every enumerated (initial list, call sequence) tuple is distinct by construction; it counts as
	// non-trivial when it contains a state-changing call, which all but the read-only sequences do
	e.Sum.Extra["enum_distinct_nontrivial"] = float64(cases)
	e.Sum.Extra["enum_max_len"] = fmt.Sprint(maxLen)
}
