// Package simrt is the child's runtime for single-task properties: the step
// counter behind the yield hook (simulated time), the step budget that turns
// a runaway loop into a reported hang, site coverage and the black box that
// lets the parent recover the input of a run that killed the process.
package simrt

import (
	"encoding/binary"
	"os"
	"runtime"
	"strings"
	"sync/atomic"
	"syscall"
	"time"
)

var (
	// Steps is simulated time: the number of library statements executed.
	Steps int64
	// Limit aborts the running operation with a HangPanic once Steps exceeds it (0 = off).
	Limit    int64
	SiteHits []bool
	LastSite uint32
	// Trace, when non-nil, receives every site executed (sequential dry run of C12).
	Trace *[]uint32
)

// Progress is bumped whenever the workload hands something to the library; the
// child's watchdog ends the process when it stops moving.
var Progress atomic.Int64

// HangPanic is raised from the yield hook when the step budget is exhausted.
// A dependency may swallow the panic (jsonld recovers and converts panics of
// its marshalers), so the hook also latches HangHit / HangSite, which the
// oracle inspects after the operation whatever way it ended.
type HangPanic struct{ Site uint32 }

var (
	HangHit  bool
	HangSite uint32
)

// MainG identifies the goroutine that drives the run; IsForeign (set by the
// child's main from sched.Getg) tells whether the caller is another goroutine,
// i.e. one the code under test started by itself. Such goroutines are neither
// counted nor budgeted.
var IsForeign func() bool

// Hook is installed as verifsim.Hook for single-task properties.
//
//go:norace
func Hook(s uint32) {
	if f := IsForeign; f != nil && f() {
		return
	}
	Steps++
	if int(s) < len(SiteHits) {
		SiteHits[s] = true
	}
	if Trace != nil && len(*Trace) < 1<<18 {
		*Trace = append(*Trace, s)
	}
	if Limit > 0 && Steps > Limit {
		if SampleAt[0] > 0 && sampleN < len(SampleAt) {
			// time budget of a decode: remember where the library is at a few checkpoints past the
			// bound before giving up, so that the report can name the function that holds the loop
			Samples[sampleN] = captureStack()
			Limit = SampleAt[sampleN]
			sampleN++
			if sampleN < len(SampleAt) {
				return
			}
			SampleAt[0] = 0
		}
		Limit = 0
		HangHit, HangSite = true, s
		// the budget panic unwinds the library from an arbitrary statement: a lock taken without a
		// deferred unlock stays taken, a cache entry may be half built. Only durable state survives a
		// crash: the child finishes this run and asks for a fresh process (cmd/sim, restart_after)
		Tainted = true
		panic(HangPanic{Site: s})
	}
}

// Work is installed as verifsim.WorkHook (C04): n bytes handed to bulk primitives by the
// statement about to run cost n/32 units of simulated time on top of the statement's own unit.
// The budget is enforced by the next Hook call.
//
//go:norace
func Work(n int) {
	if n <= 0 {
		return
	}
	if f := IsForeign; f != nil && f() {
		return
	}
	WorkBytes += int64(n)
	Steps += int64(n >> 5)
}

// WorkBytes is the running total of bytes charged through Work.
var WorkBytes int64

// Tainted: a budget panic has unwound the library in this process.
var Tainted bool

// SampleAt, when SampleAt[0] > 0, turns the budget into a ladder: the stack is
// sampled when Steps passes Limit, then Limit moves to SampleAt[0], SampleAt[1],
// …, and the panic is raised at the last rung.
var (
	SampleAt [3]int64
	Samples  [3][]string
	sampleN  int
)

// ArmLadder sets a step budget with stack samples at bound, 1.5×bound and 2×bound.
func ArmLadder(bound int64) {
	Limit = Steps + bound
	SampleAt = [3]int64{Steps + bound*3/2, Steps + bound*2, Steps + bound*2}
	sampleN = 0
	Samples = [3][]string{}
}

// Disarm switches the budget off.
func Disarm() {
	Limit = 0
	SampleAt[0] = 0
}

func captureStack() []string {
	pcs := make([]uintptr, 128)
	n := runtime.Callers(3, pcs)
	frames := runtime.CallersFrames(pcs[:n])
	const lib = "github.com/go-ap/activitypub."
	var out []string
	for {
		f, more := frames.Next()
		if strings.HasPrefix(f.Function, lib) && !strings.HasPrefix(f.Function, lib+"verifsim") {
			fn := strings.TrimPrefix(f.Function, lib)
			if i := strings.Index(fn, ".func"); i > 0 {
				fn = fn[:i]
			}
			fn = strings.NewReplacer("(*", "", ")", "", "[...]", "").Replace(fn)
			out = append(out, fn)
		}
		if !more {
			break
		}
	}
	// outermost first
	for i, j := 0, len(out)-1; i < j; i, j = i+1, j-1 {
		out[i], out[j] = out[j], out[i]
	}
	return out
}

// LoopHolder names, from the stack samples taken past the bound, the innermost
// decoding function that was on the stack every time: the function whose loop
// (or recursion) the time went into.
func LoopHolder() string {
	var common []string
	first := true
	for _, s := range Samples {
		if s == nil {
			continue
		}
		if first {
			common = append([]string(nil), s...)
			first = false
			continue
		}
		n := 0
		for n < len(common) && n < len(s) && common[n] == s[n] {
			n++
		}
		common = common[:n]
	}
	for i := len(common) - 1; i >= 0; i-- {
		f := common[i]
		base := f[strings.LastIndex(f, ".")+1:]
		for _, p := range []string{"JSON", "json", "gob", "Gob", "unmap", "tryDecode", "Unmarshal", "decode", "Decode", "as", "load", "Load"} {
			if strings.HasPrefix(base, p) {
				return f
			}
		}
	}
	if len(common) > 0 {
		return common[len(common)-1]
	}
	return "unknown"
}

// Blocked is the BlockedHook outside a scheduled run: a single goroutine that
// cannot take a lock will never get it.
//
//go:norace
func Blocked() {
	if f := IsForeign; f != nil && f() {
		runtime.Gosched()
		return
	}
	// The holder may be a goroutine the code under test started itself (a helper of a parallelised
	// loop): it will let go in a moment. Only a lock that stays taken is a deadlock.
	now := time.Now()
	if now.Sub(blockedLast) > 50*time.Millisecond || Steps != blockedSteps {
		// (a new wait: either some time has passed since the last poll, or library statements were
		// executed in between – the lock was taken and given back, however contended it is)
		blockedSince, blockedSteps = now, Steps
	}
	blockedLast = now
	if now.Sub(blockedSince) > 6*time.Second {
		panic("deadlock: the only running goroutine has been blocked on a lock or a sync.Once for 6 s")
	}
	runtime.Gosched()
}

var blockedSince, blockedLast time.Time
var blockedSteps int64

// ---------------------------------------------------------------- black box

var box []byte

// OpenBlackBox maps a shared file; what is written to it survives the death
// of the process (the kernel keeps the pages), without a syscall per write.
func OpenBlackBox(path string, size int) error {
	f, err := os.OpenFile(path, os.O_CREATE|os.O_RDWR|os.O_TRUNC, 0o644)
	if err != nil {
		return err
	}
	defer f.Close()
	if err := f.Truncate(int64(size)); err != nil {
		return err
	}
	b, err := syscall.Mmap(int(f.Fd()), 0, size, syscall.PROT_READ|syscall.PROT_WRITE, syscall.MAP_SHARED)
	if err != nil {
		return err
	}
	box = b
	return nil
}

// Record stores what is about to be handed to the library.
func Record(entry string, data []byte) {
	Progress.Add(1)
	if box == nil {
		return
	}
	if 8+len(entry)+len(data) > len(box) {
		if 8+len(entry) > len(box) {
			return
		}
		data = data[:len(box)-8-len(entry)]
	}
	binary.LittleEndian.PutUint32(box[0:4], 0) // invalidate while writing
	o := 4
	binary.LittleEndian.PutUint32(box[o:], uint32(len(data)))
	o += 4
	copy(box[o:], data)
	o += len(data)
	copy(box[o:], entry)
	binary.LittleEndian.PutUint32(box[0:4], uint32(len(entry)))
}

// ReadBlackBox is used by the parent.
func ReadBlackBox(path string) (entry string, data []byte, ok bool) {
	raw, err := os.ReadFile(path)
	if err != nil || len(raw) < 8 {
		return "", nil, false
	}
	le := int(binary.LittleEndian.Uint32(raw[0:4]))
	ld := int(binary.LittleEndian.Uint32(raw[4:8]))
	if le == 0 || 8+ld+le > len(raw) {
		return "", nil, false
	}
	return string(raw[8+ld : 8+ld+le]), append([]byte(nil), raw[8:8+ld]...), true
}

// PanicSite returns the innermost library frame of the panicking stack and a
// short panic kind. Must be called from the deferred function that recovered.
func PanicSite(r any) (string, string) {
	kind := "value"
	if e, ok := r.(runtime.Error); ok {
		msg := e.Error()
		switch {
		case strings.Contains(msg, "index out of range"):
			kind = "index-out-of-range"
		case strings.Contains(msg, "slice bounds out of range"):
			kind = "slice-bounds"
		case strings.Contains(msg, "nil pointer dereference"):
			kind = "nil-deref"
		case strings.Contains(msg, "interface conversion"):
			kind = "interface-conversion"
		case strings.Contains(msg, "nil map"):
			kind = "nil-map"
		default:
			kind = "runtime-error"
		}
	}
	pcs := make([]uintptr, 96)
	n := runtime.Callers(2, pcs)
	frames := runtime.CallersFrames(pcs[:n])
	const lib = "github.com/go-ap/activitypub."
	for {
		f, more := frames.Next()
		if strings.HasPrefix(f.Function, lib) && !strings.HasPrefix(f.Function, lib+"verifsim") {
			fn := strings.TrimPrefix(f.Function, lib)
			if i := strings.Index(fn, ".func"); i > 0 {
				fn = fn[:i]
			}
			fn = strings.NewReplacer("(*", "", ")", "", "[...]", "").Replace(fn)
			return fn, kind
		}
		if !more {
			break
		}
	}
	return "outside-library", kind
}

// ---------------------------------------------------------------- simulated clock
//
// The library's time.Now / Since / Until / Sleep are redirected here by the
// instrumenter (verifsim.ClockHook / SleepHook, wired by cmd/sim). The clock
// of a run starts at an instant derived from the run's seed and stands still
// while the run executes (so that code which stamps the current time gives the
// same result in every pass of one run); it moves when the library sleeps and
// when the workload makes it jump – forwards or backwards, between operations
// or after the k-th clock read inside one (clock skew and jumps, the fault
// kind of this seam).

var (
	clockBase  time.Time
	clockOff   time.Duration
	jumpAtRead int64
	jumpBy     time.Duration
	// ClockReads points at the instrumented library's read counter.
	ClockReads *int64
	// ClockJumps counts the jumps that happened while the library was reading the clock.
	ClockJumps int
)

var clockEpoch = time.Date(2024, 1, 1, 0, 0, 0, 0, time.UTC)

// ResetClock starts a run's clock.
//
//go:norace
func ResetClock(seed uint64) {
	clockBase = clockEpoch.Add(time.Duration(seed%(400*86400)) * time.Second)
	clockOff, jumpAtRead, jumpBy, ClockJumps = 0, 0, 0, 0
}

// Now is the simulated clock.
//
//go:norace
func Now() time.Time {
	if jumpAtRead > 0 && ClockReads != nil && *ClockReads >= jumpAtRead {
		clockOff += jumpBy
		jumpAtRead = 0
		ClockJumps++
	}
	return clockBase.Add(clockOff)
}

// Sleep lets simulated time pass.
//
//go:norace
func Sleep(d time.Duration) {
	if d > 0 {
		clockOff += d
	}
}

// JumpClock moves the clock by d (either direction) now.
//
//go:norace
func JumpClock(d time.Duration) { clockOff += d }

// ArmClockJump makes the clock jump by d once the library has read it afterReads more times.
//
//go:norace
func ArmClockJump(afterReads int64, d time.Duration) {
	if ClockReads != nil {
		jumpAtRead, jumpBy = *ClockReads+afterReads, d
	}
}

// ClockReadCount is how often the library has read the clock so far.
//
//go:norace
func ClockReadCount() int64 {
	if ClockReads == nil {
		return 0
	}
	return *ClockReads
}

// ---------------------------------------------------------------- map iteration order
//
// A range over a map in the library visits the keys in an order the simulator chooses (the
// instrumenter rewrites it to range over verifsim.SortedKeys): a fresh pseudo-random permutation
// for every range, from a generator that restarts with every run. Code whose result depends on
// that order gives different results on different calls, as it does on the real runtime – but
// reproducibly.

var orderState uint64

// ResetOrder restarts the permutation generator (called at the start of a run).
//
//go:norace
func ResetOrder(seed uint64) { orderState = seed ^ 0x6f72646572 }

// MapOrder is installed as verifsim.OrderHook.
//
//go:norace
func MapOrder(n int, swap func(i, j int)) {
	for i := n - 1; i > 0; i-- {
		orderState += 0x9e3779b97f4a7c15
		z := orderState
		z = (z ^ (z >> 30)) * 0xbf58476d1ce4e5b9
		z = (z ^ (z >> 27)) * 0x94d049bb133111eb
		z ^= z >> 31
		if j := int(z % uint64(i+1)); j != i {
			swap(i, j)
		}
	}
}
