// Command instrument prepares a scratch copy of go-ap/activitypub for the
// simulator (DESIGN.md §2.1 step 3):
//
//   - inserts `verifsim.Y(<site>); ` as text at the byte offset of every
//     statement in every block / case / comm clause of the package;
//   - rewrites every `for … range X` over a map into a range over the keys
//     sorted by fmt.Sprint order;
//   - writes verifsim/verifsim.go (hook + helpers), verifsim/sites.go (site
//     table) and zz_verif_export.go (globals, types, functions tables).
//
// It only ever touches the directory given on the command line, which must be
// a scratch copy – never /repo.
package main

import (
	"bytes"
	"fmt"
	"go/ast"
	"go/importer"
	"go/parser"
	"go/token"
	"go/types"
	"os"
	"path/filepath"
	"sort"
	"strings"
)

type edit struct {
	off  int // byte offset in the original file
	end  int // == off for pure insertions
	text string
	prio int // lower first among edits at the same offset
}

type fileInfo struct {
	name  string
	src   []byte
	f     *ast.File
	edits []edit
	sites int
	// clockRewrites: calls of package time's clock functions redirected to verifsim; timeName is
	// the name package time is imported under (kept in use by a blank declaration at the end)
	clockRewrites int
	timeName      string
}

func die(format string, a ...any) {
	fmt.Fprintf(os.Stderr, "instrument: "+format+"\n", a...)
	os.Exit(2)
}

func main() {
	if len(os.Args) != 2 {
		die("usage: instrument <scratch-dir>")
	}
	dir := os.Args[1]
	if abs, _ := filepath.Abs(dir); strings.HasPrefix(abs, "/repo") {
		die("refusing to instrument %s", abs)
	}
	fset := token.NewFileSet()
	ents, err := os.ReadDir(dir)
	if err != nil {
		die("%v", err)
	}
	var files []*fileInfo
	var astFiles []*ast.File
	for _, e := range ents {
		n := e.Name()
		if e.IsDir() || !strings.HasSuffix(n, ".go") || strings.HasSuffix(n, "_test.go") || strings.HasPrefix(n, "zz_verif") {
			continue
		}
		p := filepath.Join(dir, n)
		src, err := os.ReadFile(p)
		if err != nil {
			die("%v", err)
		}
		f, err := parser.ParseFile(fset, p, src, parser.ParseComments)
		if err != nil {
			die("parse %s: %v", p, err)
		}
		files = append(files, &fileInfo{name: n, src: src, f: f})
		astFiles = append(astFiles, f)
	}
	if len(files) == 0 {
		die("no go files in %s", dir)
	}
	pkgName := files[0].f.Name.Name

	// type-check (needed for the map-range rewrite and the export tables)
	conf := types.Config{Importer: importer.ForCompiler(fset, "source", nil), Error: func(err error) {}}
	info := &types.Info{Types: map[ast.Expr]types.TypeAndValue{}, Defs: map[*ast.Ident]types.Object{}, Uses: map[*ast.Ident]types.Object{}, Selections: map[*ast.SelectorExpr]*types.Selection{}}
	pkg, terr := conf.Check("github.com/go-ap/activitypub", fset, astFiles, info)
	if pkg == nil {
		die("type-check failed: %v", terr)
	}

	var siteTable []string
	mapRanges := 0
	blockingCalls := 0
	clockCalls := 0
	workSites := 0
	for _, fi := range files {
		fi := fi
		var funcStack []string
		tokFile := fset.File(fi.f.Pos())
		offOf := func(p token.Pos) int { return tokFile.Offset(p) }
		addSite := func(s ast.Stmt) {
			switch s.(type) {
			case *ast.EmptyStmt, *ast.CaseClause, *ast.CommClause:
				// switch/select bodies are block lists of clauses: never yield before a clause
				return
			}
			fn := "?"
			if len(funcStack) > 0 {
				fn = funcStack[len(funcStack)-1]
			}
			id := len(siteTable)
			pos := fset.Position(s.Pos())
			siteTable = append(siteTable, fmt.Sprintf("%s:%d:%s", fi.name, pos.Line, fn))
			text := fmt.Sprintf("verifsim.Y(%d); ", id)
			if w := workCost(fi, s, info, offOf); w != "" {
				text += "verifsim.W(" + w + "); "
				workSites++
			}
			fi.edits = append(fi.edits, edit{off: offOf(s.Pos()), end: offOf(s.Pos()), text: text, prio: 1})
			fi.sites++
		}
		labeled := map[ast.Stmt]bool{}
		inSelect := map[ast.Node]bool{}
		recv2 := map[*ast.UnaryExpr]bool{}
		var walk func(n ast.Node)
		walkList := func(list []ast.Stmt) {
			for _, s := range list {
				addSite(s)
			}
		}
		walk = func(n ast.Node) {
			ast.Inspect(n, func(n ast.Node) bool {
				switch x := n.(type) {
				case *ast.FuncDecl:
					name := x.Name.Name
					if x.Recv != nil && len(x.Recv.List) > 0 {
						name = recvName(x.Recv.List[0].Type) + "." + name
					}
					funcStack = append(funcStack, name)
					if x.Body != nil {
						walk(x.Body)
					}
					funcStack = funcStack[:len(funcStack)-1]
					return false
				case *ast.LabeledStmt:
					labeled[x.Stmt] = true
				case *ast.BlockStmt:
					walkList(x.List)
				case *ast.CaseClause:
					walkList(x.Body)
				case *ast.CommClause:
					walkList(x.Body)
				case *ast.CallExpr:
					rewriteBlockingCall(fi, x, info, offOf, &blockingCalls)
					rewriteClockCall(fi, x, info, offOf, &clockCalls)
					rewriteSearchCall(fi, x, info, offOf)
				case *ast.SelectStmt:
					// the communications of a select stay as they are (a select that blocks between two tasks
					// is one of the things the simulator cannot make cooperative: see DESIGN.md §3.8)
					for _, cl := range x.Body.List {
						if cc, ok := cl.(*ast.CommClause); ok && cc.Comm != nil {
							inSelect[cc.Comm] = true
							ast.Inspect(cc.Comm, func(m ast.Node) bool {
								if u, ok := m.(*ast.UnaryExpr); ok && u.Op == token.ARROW {
									inSelect[u] = true
								}
								return true
							})
						}
					}
				case *ast.AssignStmt:
					if len(x.Lhs) == 2 && len(x.Rhs) == 1 {
						if u, ok := x.Rhs[0].(*ast.UnaryExpr); ok && u.Op == token.ARROW {
							recv2[u] = true
						}
					}
				case *ast.ValueSpec:
					if len(x.Names) == 2 && len(x.Values) == 1 {
						if u, ok := x.Values[0].(*ast.UnaryExpr); ok && u.Op == token.ARROW {
							recv2[u] = true
						}
					}
				case *ast.SendStmt:
					// ch <- v  ->  verifsim.Send(ch, v): a task that cannot send lets the others run
					if !inSelect[x] {
						blockingCalls++
						fi.edits = append(fi.edits,
							edit{off: offOf(x.Pos()), end: offOf(x.Pos()), text: "verifsim.Send(", prio: 5},
							edit{off: offOf(x.Chan.End()), end: offOf(x.Value.Pos()), text: ", ", prio: 5},
							edit{off: offOf(x.End()), end: offOf(x.End()), text: ")", prio: -1})
					}
				case *ast.UnaryExpr:
					if x.Op == token.ARROW && !inSelect[x] {
						blockingCalls++
						fn := "verifsim.Recv("
						if recv2[x] {
							fn = "verifsim.Recv2("
						}
						fi.edits = append(fi.edits,
							edit{off: offOf(x.Pos()), end: offOf(x.X.Pos()), text: fn, prio: 5},
							edit{off: offOf(x.End()), end: offOf(x.End()), text: ")", prio: -1})
					}
				case *ast.RangeStmt:
					tv, ok := info.Types[x.X]
					if !ok || tv.Type == nil {
						break
					}
					if _, isMap := tv.Type.Underlying().(*types.Map); !isMap {
						break
					}
					mapRanges++
					rewriteMapRange(fi, x, offOf, labeled[x], mapRanges)
				}
				return true
			})
		}
		walk(fi.f)
	}

	// apply edits
	for _, fi := range files {
		if len(fi.edits) == 0 {
			continue
		}
		// import on the package-clause line keeps line numbers stable
		tokFile := fset.File(fi.f.Pos())
		nameEnd := tokFile.Offset(fi.f.Name.End())
		fi.edits = append(fi.edits, edit{off: nameEnd, end: nameEnd, text: `; import verifsim "github.com/go-ap/activitypub/verifsim"`, prio: 0})
		if fi.clockRewrites > 0 {
			fi.edits = append(fi.edits, edit{off: len(fi.src), end: len(fi.src), text: "\nvar _ " + fi.timeName + ".Duration // (keeps the import in use after the clock calls were redirected)\n", prio: 9})
		}
		sort.SliceStable(fi.edits, func(i, j int) bool {
			if fi.edits[i].off != fi.edits[j].off {
				return fi.edits[i].off < fi.edits[j].off
			}
			return fi.edits[i].prio < fi.edits[j].prio
		})
		var out bytes.Buffer
		cur := 0
		for _, e := range fi.edits {
			if e.off < cur {
				die("overlapping edits in %s at %d", fi.name, e.off)
			}
			out.Write(fi.src[cur:e.off])
			out.WriteString(e.text)
			cur = e.end
		}
		out.Write(fi.src[cur:])
		if err := os.WriteFile(filepath.Join(dir, fi.name), out.Bytes(), 0o644); err != nil {
			die("%v", err)
		}
	}

	// verifsim package
	vdir := filepath.Join(dir, "verifsim")
	if err := os.MkdirAll(vdir, 0o755); err != nil {
		die("%v", err)
	}
	if err := os.WriteFile(filepath.Join(vdir, "verifsim.go"), []byte(verifsimSrc), 0o644); err != nil {
		die("%v", err)
	}
	var sb strings.Builder
	sb.WriteString("package verifsim\n\n// Sites maps a yield-site id to file:line:function of the pristine source.\nvar Sites = []string{\n")
	for _, s := range siteTable {
		fmt.Fprintf(&sb, "\t%q,\n", s)
	}
	sb.WriteString("}\n")
	if err := os.WriteFile(filepath.Join(vdir, "sites.go"), []byte(sb.String()), 0o644); err != nil {
		die("%v", err)
	}

	// export tables
	if err := os.WriteFile(filepath.Join(dir, "zz_verif_export.go"), []byte(exportSrc(pkgName, pkg)), 0o644); err != nil {
		die("%v", err)
	}
	// mocks copied beside the sources are embedded so that the child needs no path
	if fi, err := os.Stat(filepath.Join(dir, "verifmocks")); err == nil && fi.IsDir() {
		src := "package " + pkgName + "\n\nimport \"embed\"\n\n//go:embed verifmocks/*.json\nvar verifMockFS embed.FS\n\n" +
			"// VerifMocks returns the repository's mock documents.\nfunc VerifMocks() map[string][]byte {\n\tout := map[string][]byte{}\n\tents, _ := verifMockFS.ReadDir(\"verifmocks\")\n\tfor _, e := range ents {\n\t\tb, _ := verifMockFS.ReadFile(\"verifmocks/\" + e.Name())\n\t\tout[e.Name()] = b\n\t}\n\treturn out\n}\n"
		if err := os.WriteFile(filepath.Join(dir, "zz_verif_mocks.go"), []byte(src), 0o644); err != nil {
			die("%v", err)
		}
	} else {
		src := "package " + pkgName + "\n\n// VerifMocks returns the repository's mock documents (none were found).\nfunc VerifMocks() map[string][]byte { return nil }\n"
		if err := os.WriteFile(filepath.Join(dir, "zz_verif_mocks.go"), []byte(src), 0o644); err != nil {
			die("%v", err)
		}
	}
	fmt.Printf("{\"sites\":%d,\"map_ranges\":%d,\"files\":%d,\"blocking_calls\":%d,\"clock_calls\":%d,\"work_sites\":%d}\n", len(siteTable), mapRanges, len(files), blockingCalls, clockCalls, workSites)
}

func recvName(e ast.Expr) string {
	switch x := e.(type) {
	case *ast.StarExpr:
		return recvName(x.X)
	case *ast.Ident:
		return x.Name
	case *ast.IndexExpr:
		return recvName(x.X)
	case *ast.IndexListExpr:
		return recvName(x.X)
	}
	return "?"
}

// rewriteMapRange turns
//
//	for k, v := range m {            into   for _, verifK := range verifsim.SortedKeys(m) { k, v := verifK, (m)[verifK];
//
// (and the =, key-only, value-only and no-variable variants). m is evaluated
// more than once, so only side-effect-free operands (identifiers, selectors,
// parenthesised forms of those) are accepted; anything else stops the build
// (exit 2) so that the nondeterminism cannot slip in unnoticed.
func rewriteMapRange(fi *fileInfo, r *ast.RangeStmt, offOf func(token.Pos) int, isLabeled bool, n int) {
	x := string(fi.src[offOf(r.X.Pos()):offOf(r.X.End())])
	impure := !pureOperand(r.X)
	if impure {
		if isLabeled {
			// (a labelled loop over a computed map cannot be wrapped in a block without changing what its
			// label means: left to the runtime's order)
			return
		}
		// the map expression is evaluated once, into a temporary, in a block around the loop
		x = fmt.Sprintf("verifM%d", n)
	}
	kv := fmt.Sprintf("verifK%d", n)
	var assign string
	keyName, valName := "", ""
	if r.Key != nil {
		keyName = string(fi.src[offOf(r.Key.Pos()):offOf(r.Key.End())])
	}
	if r.Value != nil {
		valName = string(fi.src[offOf(r.Value.Pos()):offOf(r.Value.End())])
	}
	tok := ":="
	if r.Tok == token.ASSIGN {
		tok = "="
	}
	lhs, rhs := []string{}, []string{}
	if keyName != "" && keyName != "_" {
		lhs = append(lhs, keyName)
		rhs = append(rhs, kv)
	}
	if valName != "" && valName != "_" {
		lhs = append(lhs, valName)
		rhs = append(rhs, fmt.Sprintf("(%s)[%s]", x, kv))
	}
	if len(lhs) > 0 {
		assign = fmt.Sprintf(" %s %s %s;", strings.Join(lhs, ", "), tok, strings.Join(rhs, ", "))
	} else {
		assign = fmt.Sprintf(" _ = %s;", kv)
	}
	header := fmt.Sprintf("for _, %s := range verifsim.SortedKeys(%s) {%s", kv, x, assign)
	if impure {
		// (the original expression text stays where it is: it may hold edits of its own)
		fi.edits = append(fi.edits,
			edit{off: offOf(r.For), end: offOf(r.X.Pos()), text: fmt.Sprintf("{ %s := ", x), prio: 5},
			edit{off: offOf(r.X.End()), end: offOf(r.Body.Lbrace) + 1, text: "; " + header, prio: 5},
			edit{off: offOf(r.End()), end: offOf(r.End()), text: " }", prio: -3})
		return
	}
	fi.edits = append(fi.edits, edit{off: offOf(r.For), end: offOf(r.Body.Lbrace) + 1, text: header, prio: 5})
}

// rewriteBlockingCall makes the blocking calls a data-type library could
// plausibly contain cooperative, so that a task that would block on a lock
// held by a parked task tells the scheduler instead of deadlocking the
// simulation: X.Lock() / X.RLock() on sync.Mutex / sync.RWMutex become a
// TryLock loop that yields through verifsim.Blocked(); X.Do(f) on sync.Once
// becomes verifsim.OnceDo. The synchronisation primitives themselves stay
// real, so ThreadSanitizer still sees the happens-before edges they create.
// syncRecv returns a Go expression for a pointer to the sync.X value a method is called on: the
// operand itself, or the field of it the method is promoted from (a struct that embeds a
// sync.RWMutex calls x.RLock()).
func syncRecv(fi *fileInfo, sel *ast.SelectorExpr, info *types.Info, offOf func(token.Pos) int) (string, bool) {
	x := string(fi.src[offOf(sel.X.Pos()):offOf(sel.X.End())])
	tv, ok := info.Types[sel.X]
	if !ok {
		return "", false
	}
	typ := tv.Type
	expr := "(" + x + ")"
	if s, ok := info.Selections[sel]; ok {
		idx := s.Index()
		for _, i := range idx[:len(idx)-1] {
			if p, ok := typ.Underlying().(*types.Pointer); ok {
				typ = p.Elem()
			}
			st, ok := typ.Underlying().(*types.Struct)
			if !ok || i >= st.NumFields() {
				return "", false
			}
			expr += "." + st.Field(i).Name()
			typ = st.Field(i).Type()
		}
	}
	if _, isPtr := typ.Underlying().(*types.Pointer); isPtr {
		return expr, true
	}
	return "&" + expr, true
}

func rewriteBlockingCall(fi *fileInfo, call *ast.CallExpr, info *types.Info, offOf func(token.Pos) int, n *int) {
	sel, ok := call.Fun.(*ast.SelectorExpr)
	if !ok {
		return
	}
	fn, ok := info.Uses[sel.Sel].(*types.Func)
	if !ok || fn.Pkg() == nil || fn.Pkg().Path() != "sync" {
		return
	}
	sig, ok := fn.Type().(*types.Signature)
	if !ok || sig.Recv() == nil {
		return
	}
	recv := sig.Recv().Type()
	if p, ok := recv.(*types.Pointer); ok {
		recv = p.Elem()
	}
	named, ok := recv.(*types.Named)
	if !ok {
		return
	}
	x := string(fi.src[offOf(sel.X.Pos()):offOf(sel.X.End())])
	switch named.Obj().Name() + "." + fn.Name() {
	case "Mutex.Lock":
		*n++
		fi.edits = append(fi.edits, edit{off: offOf(call.Pos()), end: offOf(call.End()), prio: 5,
			text: fmt.Sprintf("func() { for !(%s).TryLock() { verifsim.Blocked() } }()", x)})
	case "RWMutex.Lock", "RWMutex.RLock":
		// through verifsim.RWLock / RWRLock, which keep sync.RWMutex's writer preference: while a
		// Lock call waits, new RLock calls wait too (a recursive read lock deadlocks on the real
		// thing as soon as a writer shows up in between; it must do so in the simulation)
		ptr, ok := syncRecv(fi, sel, info, offOf)
		if !ok {
			return
		}
		*n++
		fi.edits = append(fi.edits, edit{off: offOf(call.Pos()), end: offOf(call.End()), prio: 5,
			text: fmt.Sprintf("verifsim.RW%s(%s)", fn.Name(), ptr)})
	case "Cond.Wait", "Cond.Signal", "Cond.Broadcast":
		// X.Wait() -> verifsim.CondWait(X) etc.: a task that waits for another task's Signal must let
		// that task run (sync.Cond is used through a pointer: NewCond returns one, and a Cond must
		// not be copied)
		ptr, ok := syncRecv(fi, sel, info, offOf)
		if !ok {
			return
		}
		*n++
		fi.edits = append(fi.edits, edit{off: offOf(call.Pos()), end: offOf(call.End()), prio: 5,
			text: fmt.Sprintf("verifsim.Cond%s(%s)", fn.Name(), ptr)})
	case "Once.Do":
		if len(call.Args) != 1 {
			return
		}
		ptr, ok := syncRecv(fi, sel, info, offOf)
		if !ok {
			return
		}
		*n++
		// only the callee is replaced ("X.Do(" -> "verifsim.OnceDo(&X, "): the argument stays in
		// place, because a function literal there carries yield insertions of its own
		fi.edits = append(fi.edits, edit{off: offOf(call.Pos()), end: offOf(call.Lparen) + 1, prio: 5,
			text: fmt.Sprintf("verifsim.OnceDo(%s, ", ptr)})
	}
}

// workCost returns a Go expression for the number of bytes the statement hands to bulk
// primitives – the builtin copy and append(x, y...), the functions of packages bytes and
// strings, conversions between string and []byte, string concatenation – or "" if there are
// none. A statement is one unit of simulated time; the bytes it moves or scans inside the
// runtime and the standard library are charged on top (verifsim.W: 32 bytes a unit), so that
// work which is quadratic only there (an in-place edit that shifts the tail for every escape,
// a string grown by += in a loop) is not invisible to the time bound.
// Only operands that are safe to evaluate a second time are charged (no calls), only when
// everything they mention is declared before the statement, and never operands that the
// statement itself evaluates conditionally (right of && / ||).
func workCost(fi *fileInfo, s ast.Stmt, info *types.Info, offOf func(token.Pos) int) string {
	var roots, direct []ast.Expr
	switch x := s.(type) {
	case *ast.ExprStmt:
		roots = append(roots, x.X)
	case *ast.AssignStmt:
		roots = append(roots, x.Rhs...)
		if x.Tok == token.ADD_ASSIGN && len(x.Lhs) == 1 && isBytesLike(info, x.Lhs[0]) {
			// s += t copies s
			direct = append(direct, x.Lhs[0], x.Rhs[0])
		}
	case *ast.ReturnStmt:
		roots = append(roots, x.Results...)
	case *ast.IfStmt:
		if x.Init == nil {
			roots = append(roots, x.Cond)
		}
	case *ast.DeclStmt:
		if gd, ok := x.Decl.(*ast.GenDecl); ok {
			for _, sp := range gd.Specs {
				if vs, ok := sp.(*ast.ValueSpec); ok {
					roots = append(roots, vs.Values...)
				}
			}
		}
	default:
		return ""
	}
	text := func(e ast.Expr) string { return string(fi.src[offOf(e.Pos()):offOf(e.End())]) }
	var safe func(e ast.Expr) bool
	safe = func(e ast.Expr) bool {
		switch x := e.(type) {
		case *ast.Ident:
			if x.Name == "_" {
				return false
			}
			obj := info.Uses[x]
			if obj == nil {
				return false
			}
			// declared before the statement, or at package level / universe
			if obj.Pkg() == nil || !obj.Pos().IsValid() {
				return true // universe (nil, true, …)
			}
			return obj.Pos() < s.Pos() || obj.Parent() == obj.Pkg().Scope()
		case *ast.BasicLit:
			return true
		case *ast.ParenExpr:
			return safe(x.X)
		case *ast.SelectorExpr:
			if id, ok := x.X.(*ast.Ident); ok {
				if _, isPkg := info.Uses[id].(*types.PkgName); isPkg {
					return false
				}
			}
			if sel, ok := info.Selections[x]; !ok || sel.Kind() != types.FieldVal {
				return false
			}
			return safe(x.X)
		case *ast.StarExpr:
			return safe(x.X)
		case *ast.UnaryExpr:
			return x.Op != token.ARROW && x.Op != token.AND && safe(x.X)
		case *ast.BinaryExpr:
			return x.Op != token.LAND && x.Op != token.LOR && safe(x.X) && safe(x.Y)
		case *ast.IndexExpr:
			return safe(x.X) && safe(x.Index)
		case *ast.SliceExpr:
			return safe(x.X) && (x.Low == nil || safe(x.Low)) && (x.High == nil || safe(x.High)) && (x.Max == nil || safe(x.Max))
		case *ast.CallExpr:
			if id, ok := x.Fun.(*ast.Ident); ok && (id.Name == "len" || id.Name == "cap") && len(x.Args) == 1 {
				if _, isBuiltin := info.Uses[id].(*types.Builtin); isBuiltin {
					return safe(x.Args[0])
				}
			}
			return false
		}
		return false
	}
	var terms []string
	charge := func(e ast.Expr) {
		if isBytesLike(info, e) && safe(e) && len(terms) < 6 {
			terms = append(terms, "len("+text(e)+")")
		}
	}
	var visit func(e ast.Expr)
	visit = func(e ast.Expr) {
		ast.Inspect(e, func(n ast.Node) bool {
			switch x := n.(type) {
			case *ast.FuncLit:
				return false
			case *ast.BinaryExpr:
				if x.Op == token.LAND || x.Op == token.LOR {
					visit(x.X) // the right operand is evaluated conditionally
					return false
				}
				if x.Op == token.ADD && isBytesLike(info, x) {
					charge(x.X)
					charge(x.Y)
				}
			case *ast.CallExpr:
				switch f := x.Fun.(type) {
				case *ast.Ident:
					if b, ok := info.Uses[f].(*types.Builtin); ok {
						switch b.Name() {
						case "copy":
							if len(x.Args) == 2 {
								charge(x.Args[1])
							}
						case "append":
							if x.Ellipsis.IsValid() && len(x.Args) == 2 {
								charge(x.Args[1])
							}
						}
					}
				case *ast.SelectorExpr:
					if id, ok := f.X.(*ast.Ident); ok {
						// (only functions that pass over their whole input whatever it holds: a search may stop
						// at the first byte, and charging it in full would make a linear scan loop look quadratic)
						if pn, ok := info.Uses[id].(*types.PkgName); ok && (pn.Imported().Path() == "bytes" || pn.Imported().Path() == "strings") && fullPass[f.Sel.Name] {
							for _, a := range x.Args {
								charge(a)
							}
						}
					}
				}
				// a conversion between string and []byte copies its operand
				if tv, ok := info.Types[x.Fun]; ok && tv.IsType() && len(x.Args) == 1 && isBytesLike(info, x) && isBytesLike(info, x.Args[0]) && isString(info, x) != isString(info, x.Args[0]) {
					charge(x.Args[0])
				}
			}
			return true
		})
	}
	for _, d := range direct {
		charge(d)
	}
	for _, r := range roots {
		if r != nil && r.Pos().IsValid() {
			visit(r)
		}
	}
	return strings.Join(terms, "+")
}

// fullPass: functions of packages bytes and strings whose cost is their input's length whatever it holds.
var fullPass = map[string]bool{"ReplaceAll": true, "ToLower": true, "ToUpper": true, "ToTitle": true, "ToValidUTF8": true, "Clone": true, "Join": true, "Repeat": true,
	"Map": true, "Count": true, "Split": true, "SplitN": false, "Fields": true, "Title": true, "Runes": true, "TrimSpace": false}

// isString: the expression's type is a string type.
func isString(info *types.Info, e ast.Expr) bool {
	tv, ok := info.Types[e]
	if !ok || tv.Type == nil {
		return false
	}
	b, ok := tv.Type.Underlying().(*types.Basic)
	return ok && b.Info()&types.IsString != 0
}

// isBytesLike: the expression is a string or a []byte.
func isBytesLike(info *types.Info, e ast.Expr) bool {
	tv, ok := info.Types[e]
	if !ok || tv.Type == nil {
		return false
	}
	switch u := tv.Type.Underlying().(type) {
	case *types.Basic:
		return u.Info()&types.IsString != 0
	case *types.Slice:
		if b, ok := u.Elem().Underlying().(*types.Basic); ok {
			return b.Kind() == types.Byte || b.Kind() == types.Uint8
		}
	}
	return false
}

// rewriteSearchCall charges a search by what it scanned: bytes.Index(b, sep) and its relatives
// return where they stopped, so the cost is known afterwards – position p of the match, or the
// whole operand when there is none (LastIndex: counted from the end). A loop that advances by
// what it found is charged its input once; a loop that searches to the end again and again is
// charged what it costs.
func rewriteSearchCall(fi *fileInfo, call *ast.CallExpr, info *types.Info, offOf func(token.Pos) int) {
	sel, ok := call.Fun.(*ast.SelectorExpr)
	if !ok || len(call.Args) < 2 {
		return
	}
	id, ok := sel.X.(*ast.Ident)
	if !ok {
		return
	}
	pn, ok := info.Uses[id].(*types.PkgName)
	if !ok || (pn.Imported().Path() != "bytes" && pn.Imported().Path() != "strings") {
		return
	}
	wrap := ""
	switch sel.Sel.Name {
	case "Index", "IndexByte", "IndexRune", "IndexAny", "IndexFunc":
		wrap = "verifsim.Idx("
	case "LastIndex", "LastIndexByte", "LastIndexAny", "LastIndexFunc":
		wrap = "verifsim.LastIdx("
	default:
		return
	}
	if !pureExpr(call.Args[0], info) {
		return
	}
	arg0 := string(fi.src[offOf(call.Args[0].Pos()):offOf(call.Args[0].End())])
	fi.edits = append(fi.edits,
		edit{off: offOf(call.Pos()), end: offOf(call.Pos()), text: wrap, prio: 4},
		edit{off: offOf(call.End()), end: offOf(call.End()), text: ", len(" + arg0 + "))", prio: -2})
}

// pureExpr: evaluating the expression a second time has no effect and cannot fail where the first
// evaluation did not.
func pureExpr(e ast.Expr, info *types.Info) bool {
	switch x := e.(type) {
	case *ast.Ident:
		return x.Name != "_"
	case *ast.BasicLit:
		return true
	case *ast.ParenExpr:
		return pureExpr(x.X, info)
	case *ast.SelectorExpr:
		if sel, ok := info.Selections[x]; !ok || sel.Kind() != types.FieldVal {
			return false
		}
		return pureExpr(x.X, info)
	case *ast.StarExpr:
		return pureExpr(x.X, info)
	case *ast.UnaryExpr:
		return x.Op != token.ARROW && x.Op != token.AND && pureExpr(x.X, info)
	case *ast.BinaryExpr:
		return x.Op != token.LAND && x.Op != token.LOR && pureExpr(x.X, info) && pureExpr(x.Y, info)
	case *ast.IndexExpr:
		return pureExpr(x.X, info) && pureExpr(x.Index, info)
	case *ast.SliceExpr:
		return pureExpr(x.X, info) && (x.Low == nil || pureExpr(x.Low, info)) && (x.High == nil || pureExpr(x.High, info)) && (x.Max == nil || pureExpr(x.Max, info))
	case *ast.CallExpr:
		if id, ok := x.Fun.(*ast.Ident); ok && (id.Name == "len" || id.Name == "cap") && len(x.Args) == 1 {
			if _, isBuiltin := info.Uses[id].(*types.Builtin); isBuiltin {
				return pureExpr(x.Args[0], info)
			}
		}
	}
	return false
}

// rewriteClockCall puts the library's clock behind the simulator: time.Now(),
// time.Since(t), time.Until(t) and time.Sleep(d) become verifsim.Now() etc.,
// which read (or advance) the simulated clock when the simulator has set one.
// The pinned tree never reads a clock; a change that starts to (a cache with an
// expiry, a rate limit) stays replayable, and the simulator can let time pass
// or jump between and inside operations. Timers and tickers are left alone.
func rewriteClockCall(fi *fileInfo, call *ast.CallExpr, info *types.Info, offOf func(token.Pos) int, n *int) {
	sel, ok := call.Fun.(*ast.SelectorExpr)
	if !ok {
		return
	}
	id, ok := sel.X.(*ast.Ident)
	if !ok {
		return
	}
	pn, ok := info.Uses[id].(*types.PkgName)
	if !ok || pn.Imported().Path() != "time" {
		return
	}
	switch sel.Sel.Name {
	case "Now", "Since", "Until", "Sleep":
		*n++
		fi.clockRewrites++
		fi.timeName = id.Name
		fi.edits = append(fi.edits, edit{off: offOf(sel.Pos()), end: offOf(sel.End()), prio: 5, text: "verifsim." + sel.Sel.Name})
	}
}

func pureOperand(e ast.Expr) bool {
	switch x := e.(type) {
	case *ast.Ident:
		return true
	case *ast.SelectorExpr:
		return pureOperand(x.X)
	case *ast.ParenExpr:
		return pureOperand(x.X)
	case *ast.StarExpr:
		return pureOperand(x.X)
	}
	return false
}

const verifsimSrc = `// Package verifsim is generated into the scratch copy by /verif's instrumenter.
// It is the only seam the simulator needs inside the library: a yield point
// before every statement. With Hook == nil behaviour is unchanged.
package verifsim

import (
	"fmt"
	"runtime"
	"sort"
	"sync"
	"time"
)

// Hook is set by the simulator before a run starts and cleared after it.
var Hook func(uint32)

// rwState counts the Lock calls that are waiting on one sync.RWMutex (plain array, norace: see onces).
type rwState struct {
	m       *sync.RWMutex
	waiting int
}

var (
	rws  [128]rwState
	nRWs int
)

//go:norace
func rwWaiting(m *sync.RWMutex, delta int) int {
	for i := 0; i < nRWs; i++ {
		if rws[i].m == m {
			rws[i].waiting += delta
			return rws[i].waiting
		}
	}
	if nRWs == len(rws) {
		return 0
	}
	rws[nRWs] = rwState{m: m, waiting: delta}
	nRWs++
	return delta
}

// RWLock is m.Lock() for the simulator.
//
//go:norace
func RWLock(m *sync.RWMutex) {
	if m.TryLock() {
		return
	}
	rwWaiting(m, +1)
	for !m.TryLock() {
		Blocked()
	}
	rwWaiting(m, -1)
}

// RWRLock is m.RLock() for the simulator: it waits while a writer holds the lock or waits for it.
//
//go:norace
func RWRLock(m *sync.RWMutex) {
	for rwWaiting(m, 0) > 0 || !m.TryRLock() {
		Blocked()
	}
}

// condState is the notify list of one sync.Cond among the simulator's tasks: waiters take tickets,
// Signal admits the oldest waiting ticket, Broadcast all of them (the runtime's own algorithm, so
// that a waiter returns exactly when the real Wait could: no spurious wake-ups, FIFO Signal).
// Plain arrays touched from norace code by the one running task: see onces.
type condState struct {
	c              *sync.Cond
	next, admitted uint64
}

var (
	conds  [64]condState
	nConds int
)

//go:norace
func condSlot(c *sync.Cond) *condState {
	for i := 0; i < nConds; i++ {
		if conds[i].c == c {
			return &conds[i]
		}
	}
	if nConds == len(conds) {
		return nil
	}
	conds[nConds].c = c
	nConds++
	return &conds[nConds-1]
}

//go:norace
func condTicket(c *sync.Cond) (st *condState, ticket uint64) {
	if st = condSlot(c); st == nil {
		return nil, 0
	}
	ticket = st.next
	st.next++
	return st, ticket
}

//go:norace
func condAdmitted(st *condState, ticket uint64) bool { return st.admitted > ticket }

//go:norace
func condNotify(c *sync.Cond, all bool) {
	st := condSlot(c)
	if st == nil {
		return
	}
	if all {
		st.admitted = st.next
	} else if st.admitted < st.next {
		st.admitted++
	}
}

// CondWait is c.Wait() for the simulator: the lock is released, the task hands over until a
// Signal or Broadcast admits its ticket, then it takes the lock again (cooperatively).
//go:norace
func CondWait(c *sync.Cond) {
	if BlockedHook == nil {
		c.Wait()
		return
	}
	st, ticket := condTicket(c)
	if st == nil {
		c.Wait()
		return
	}
	c.L.Unlock()
	for !condAdmitted(st, ticket) {
		Blocked()
	}
	if tl, ok := c.L.(interface{ TryLock() bool }); ok {
		for !tl.TryLock() {
			Blocked()
		}
		return
	}
	c.L.Lock()
}

// CondSignal is c.Signal() for the simulator (waiters that are goroutines of the library's own are
// woken by the real call).
//go:norace
func CondSignal(c *sync.Cond) {
	condNotify(c, false)
	c.Signal()
}

// CondBroadcast is c.Broadcast() for the simulator.
//go:norace
func CondBroadcast(c *sync.Cond) {
	condNotify(c, true)
	c.Broadcast()
}

// Send is ch <- v for the simulator: a task that cannot send hands over to the others.
//go:norace
func Send[T any](ch chan<- T, v T) {
	if BlockedHook == nil {
		ch <- v
		return
	}
	for {
		select {
		case ch <- v:
			return
		default:
			Blocked()
		}
	}
}

// Recv is <-ch for the simulator.
func Recv[T any](ch <-chan T) T {
	v, _ := Recv2(ch)
	return v
}

// Recv2 is the two-value form of <-ch for the simulator.
//go:norace
func Recv2[T any](ch <-chan T) (T, bool) {
	if BlockedHook == nil {
		v, ok := <-ch
		return v, ok
	}
	for {
		select {
		case v, ok := <-ch:
			return v, ok
		default:
			Blocked()
		}
	}
}

// WorkHook receives the number of bytes a statement hands to bulk primitives (copy, append,
// bytes.*, strings.*, conversions, concatenation): work done outside the instrumented statements.
var WorkHook func(int)

// W charges n bytes of bulk work to simulated time.
//go:norace
func W(n int) {
	if h := WorkHook; h != nil {
		h(n)
	}
}

// Idx charges a forward search by the position it stopped at (n: the operand's length).
//
//go:norace
func Idx(p, n int) int {
	if p < 0 || p > n {
		W(n)
	} else {
		W(p)
	}
	return p
}

// LastIdx charges a backward search.
//
//go:norace
func LastIdx(p, n int) int {
	if p < 0 || p > n {
		W(n)
	} else {
		W(n - p)
	}
	return p
}

// ClockHook is the simulated clock (nil: the real one). Every time.Now /
// time.Since / time.Until of the library reads it, time.Sleep advances it.
var (
	ClockHook func() time.Time
	SleepHook func(time.Duration)
	// ClockReads counts clock reads (plain counter, bumped from norace code: approximate under
	// real parallelism, exact otherwise; the simulator only asks whether it moved)
	ClockReads int64
)

//go:norace
func bumpClockReads() { ClockReads++ }

// Now is time.Now under the simulator's clock.
//go:norace
func Now() time.Time {
	bumpClockReads()
	if h := ClockHook; h != nil {
		return h()
	}
	return time.Now()
}

// Since is time.Since under the simulator's clock.
func Since(t time.Time) time.Duration { return Now().Sub(t) }

// Until is time.Until under the simulator's clock.
func Until(t time.Time) time.Duration { return t.Sub(Now()) }

// Sleep is time.Sleep under the simulator's clock: simulated time passes, nobody waits.
//go:norace
func Sleep(d time.Duration) {
	if h := SleepHook; h != nil {
		h(d)
		return
	}
	time.Sleep(d)
}

// BlockedHook is called by a task that cannot take a lock (or must wait for a
// sync.Once another task is running): the scheduler hands over to another task.
var BlockedHook func()

// Blocked is what the rewritten Lock / RLock / Once.Do calls spin on.
//go:norace
func Blocked() {
	if h := BlockedHook; h != nil {
		h()
		return
	}
	runtime.Gosched()
}

type onceState struct {
	o             *sync.Once
	running, done bool
}

// Only touched by the single running task, from norace code: no lock, so that
// no happens-before edge is added that the program itself does not have. A
// plain array, not a map: the runtime's map functions carry race annotations
// of their own, which //go:norace on the caller does not switch off, and the
// tasks are unordered for the race detector.
var (
	onces  [256]onceState
	nOnces int
)

//go:norace
func onceSlot(o *sync.Once) *onceState {
	for i := 0; i < nOnces; i++ {
		if onces[i].o == o {
			return &onces[i]
		}
	}
	if nOnces == len(onces) {
		return nil
	}
	onces[nOnces].o = o
	nOnces++
	return &onces[nOnces-1]
}

//go:norace
func onceEnter(o *sync.Once) (run, done bool) {
	st := onceSlot(o)
	if st == nil || st.done {
		// (more Once values than slots: fall back to the real, blocking Do)
		return false, true
	}
	if !st.running {
		st.running = true
		return true, false
	}
	return false, false
}

//go:norace
func onceLeave(o *sync.Once) {
	if st := onceSlot(o); st != nil {
		st.running, st.done = false, true
	}
}

// OnceDo is o.Do(f) for the simulator: a task that finds another task inside
// the Once yields instead of blocking on the Once's internal mutex. The real
// o.Do is still what runs f and what late callers go through, so the
// happens-before edge sync.Once provides is the real one.
//
//go:norace
func OnceDo(o *sync.Once, f func()) {
	for {
		run, done := onceEnter(o)
		if done {
			o.Do(f)
			return
		}
		if run {
			defer onceLeave(o)
			o.Do(f)
			return
		}
		Blocked()
	}
}

// Y is called before every statement of the instrumented package. (norace, like every entry
// point of this package: the hook variables are the simulator's, written by its main goroutine
// between phases; a goroutine the library keeps running in the background reads them at every
// statement, and that is not a race of the library's.)
//
//go:norace
func Y(s uint32) {
	if h := Hook; h != nil {
		h(s)
	}
}

// SortedKeys returns the keys of m in the order the simulator chooses (sorted by their fmt.Sprint
// form, then permuted by OrderHook), so that a range over a map is reproducible.
func SortedKeys[M ~map[K]V, K comparable, V any](m M) []K {
	keys := make([]K, 0, len(m))
	for k := range m {
		keys = append(keys, k)
	}
	sort.Slice(keys, func(i, j int) bool { return fmt.Sprint(keys[i]) < fmt.Sprint(keys[j]) })
	if h := OrderHook; h != nil {
		h(len(keys), func(i, j int) { keys[i], keys[j] = keys[j], keys[i] })
	}
	return keys
}

// OrderHook lets the simulator choose the order in which a range over a map visits the keys: the
// runtime's order is random, the simulator's is a seeded permutation that changes from one
// range to the next – reproducible, and as unreliable as the real thing.
var OrderHook func(n int, swap func(i, j int))
`

// exportSrc generates zz_verif_export.go: tables the harness reflects over, so
// that globals, exported types and exported functions added by a later change
// to the library are reached without touching the harness.
func exportSrc(pkgName string, pkg *types.Package) string {
	var sb strings.Builder
	fmt.Fprintf(&sb, "package %s\n\n// Code generated by /verif instrumenter. DO NOT EDIT.\n\n", pkgName)
	scope := pkg.Scope()
	names := scope.Names()
	sort.Strings(names)

	sb.WriteString("// VerifGlobals returns pointers to every package-level variable.\nfunc VerifGlobals() map[string]any {\n\treturn map[string]any{\n")
	for _, n := range names {
		if v, ok := scope.Lookup(n).(*types.Var); ok && n != "_" {
			_ = v
			fmt.Fprintf(&sb, "\t\t%q: &%s,\n", n, n)
		}
	}
	sb.WriteString("\t}\n}\n\n")

	sb.WriteString("// VerifTypes returns a new(T) for every exported, non-generic, non-interface named type.\nfunc VerifTypes() map[string]any {\n\treturn map[string]any{\n")
	for _, n := range names {
		tn, ok := scope.Lookup(n).(*types.TypeName)
		if !ok || !tn.Exported() {
			continue
		}
		if tn.IsAlias() {
			continue
		}
		named, ok := tn.Type().(*types.Named)
		if !ok || named.TypeParams().Len() > 0 {
			continue
		}
		if _, isIface := named.Underlying().(*types.Interface); isIface {
			continue
		}
		fmt.Fprintf(&sb, "\t\t%q: new(%s),\n", n, n)
	}
	sb.WriteString("\t}\n}\n\n")

	sb.WriteString("// VerifFuncs returns every exported, non-generic package-level function.\nfunc VerifFuncs() map[string]any {\n\treturn map[string]any{\n")
	for _, n := range names {
		fn, ok := scope.Lookup(n).(*types.Func)
		if !ok || !fn.Exported() {
			continue
		}
		sig := fn.Type().(*types.Signature)
		if sig.TypeParams().Len() > 0 {
			continue
		}
		if strings.HasPrefix(n, "Verif") {
			continue
		}
		fmt.Fprintf(&sb, "\t\t%q: %s,\n", n, n)
	}
	sb.WriteString("\t}\n}\n")
	return sb.String()
}
