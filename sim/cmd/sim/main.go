// Command sim is the child process of the simulator: it is built afresh for
// every check run against the instrumented scratch copy of the library and
// executes seeded runs, explicit plans (replay) or an enumeration shard.
//
// Protocol (stdout, one item per line, flushed after every line):
//
//	B <k>            before run k (so that a process death is attributable)
//	G <group>        before an enumeration group
//	{record json}    for violations, samples and replays
//	{summary json}   once, last
package main

import (
	"bufio"
	"encoding/binary"
	"encoding/json"
	"flag"
	"fmt"
	"os"
	"runtime"
	"runtime/debug"
	"strings"

	"github.com/go-ap/activitypub/verifsim"

	"verif.local/sim/core"
	_ "verif.local/sim/props/c13"
	_ "verif.local/sim/props/c19"
)

var (
	out      = bufio.NewWriterSize(os.Stdout, 1<<16)
	steps    int64
	siteHits []bool
)

func emitJSON(v any) {
	b, err := json.Marshal(v)
	if err != nil {
		fmt.Fprintf(os.Stderr, "sim: marshal: %v\n", err)
		os.Exit(2)
	}
	out.Write(b)
	out.WriteByte('\n')
	out.Flush()
}

func countHook(s uint32) {
	steps++
	if int(s) < len(siteHits) {
		siteHits[s] = true
	}
}

func main() {
	debug.SetGCPercent(200)
	if len(os.Args) < 2 {
		fmt.Fprintln(os.Stderr, "usage: sim run|plan|enum ...")
		os.Exit(2)
	}
	siteHits = make([]bool, len(verifsim.Sites))
	switch os.Args[1] {
	case "run":
		cmdRun(os.Args[2:])
	case "plan":
		cmdPlan(os.Args[2:])
	case "enum":
		cmdEnum(os.Args[2:])
	default:
		fmt.Fprintln(os.Stderr, "usage: sim run|plan|enum ...")
		os.Exit(2)
	}
	out.Flush()
}

func getProp(id string) *core.Prop {
	p := core.Registry[id]
	if p == nil {
		fmt.Fprintf(os.Stderr, "sim: unknown property %q\n", id)
		os.Exit(2)
	}
	return p
}

// runOne executes one run under the panic oracle and returns its record.
func runOne(p *core.Prop, c *core.Ctx) {
	steps = 0
	c.Steps = &steps
	defer func() {
		c.Rec.Steps = steps
		if r := recover(); r != nil {
			frame, kind := panicSite(r)
			c.Fail("panic", fmt.Sprintf("%s/panic/%s/%s", p.ID, frame, kind), "panic: %v (at %s) after trace %s", r, frame, strings.Join(tail(c.Trace, 6), "; "))
		}
	}()
	p.Run(c)
}

func tail(s []string, n int) []string {
	if len(s) > n {
		return s[len(s)-n:]
	}
	return s
}

// panicSite returns the innermost library frame of the panicking stack and a
// short panic kind. Must be called from the deferred function that recovered.
func panicSite(r any) (string, string) {
	kind := "value"
	if e, ok := r.(runtime.Error); ok {
		msg := e.Error()
		switch {
		case strings.Contains(msg, "index out of range"):
			kind = "index-out-of-range"
		case strings.Contains(msg, "slice bounds out of range"):
			kind = "slice-bounds"
		case strings.Contains(msg, "nil pointer dereference"):
			kind = "nil-deref"
		case strings.Contains(msg, "interface conversion"):
			kind = "interface-conversion"
		case strings.Contains(msg, "nil map"):
			kind = "nil-map"
		default:
			kind = "runtime-error"
		}
	}
	pcs := make([]uintptr, 64)
	n := runtime.Callers(3, pcs)
	frames := runtime.CallersFrames(pcs[:n])
	for {
		f, more := frames.Next()
		if strings.HasPrefix(f.Function, "github.com/go-ap/activitypub.") {
			fn := strings.TrimPrefix(f.Function, "github.com/go-ap/activitypub.")
			if i := strings.Index(fn, ".func"); i > 0 {
				fn = fn[:i]
			}
			return fn, kind
		}
		if !more {
			break
		}
	}
	return "outside-library", kind
}

func cmdRun(args []string) {
	fs := flag.NewFlagSet("run", flag.ExitOnError)
	prop := fs.String("prop", "", "property id")
	tier := fs.String("tier", "quick", "tier")
	seed := fs.Uint64("seed", 1, "batch seed")
	from := fs.Uint64("from", 0, "first run index")
	to := fs.Uint64("to", 0, "one past the last run index")
	stride := fs.Uint64("stride", 1, "run every stride-th index starting at from")
	samples := fs.Int("samples", 0, "emit this many sample records")
	hashOut := fs.String("hashes", "", "file receiving the distinct-case hashes (binary, 9 bytes per run)")
	fs.Parse(args)
	p := getProp(*prop)
	verifsim.Hook = countHook
	sum := core.Summary{Summary: true, SitesTotal: len(verifsim.Sites)}
	var hw *bufio.Writer
	if *hashOut != "" {
		f, err := os.Create(*hashOut)
		if err != nil {
			fmt.Fprintf(os.Stderr, "sim: %v\n", err)
			os.Exit(2)
		}
		defer f.Close()
		hw = bufio.NewWriterSize(f, 1<<16)
		defer hw.Flush()
	}
	for k := *from; k < *to; k += *stride {
		fmt.Fprintf(out, "B %d\n", k)
		out.Flush()
		runSeed := core.Mix(*seed, k)
		rec := &core.Record{Seed: runSeed, Mode: p.PickMode(k)}
		c := &core.Ctx{Tape: core.NewTape(runSeed), Tier: *tier, Mode: rec.Mode, Rec: rec}
		runOne(p, c)
		sum.Runs++
		sum.Steps += rec.Steps
		sum.Switches += rec.Switches
		sum.Faults = core.AddCounts(sum.Faults, rec.Faults)
		sum.Probes = core.AddCounts(sum.Probes, rec.Probes)
		if hw != nil {
			var buf [9]byte
			h := core.Hash64([]byte(rec.Mode + "|" + rec.CaseHash))
			binary.LittleEndian.PutUint64(buf[:8], h)
			if rec.Nontriv {
				buf[8] = 1
			}
			hw.Write(buf[:])
		}
		if rec.Viol != nil {
			rec.Plan = &core.Plan{Property: p.ID, Tier: *tier, Mode: rec.Mode, Seed: runSeed, Tape: c.Tape.Recorded(), Schedule: c.Schedule}
			rec.Sample = c.Trace
			emitJSON(rec)
		} else if *samples > 0 && rec.Nontriv {
			*samples--
			rec.Sample = c.Trace
			emitJSON(rec)
		}
	}
	for i, h := range siteHits {
		if h {
			sum.SitesHit = append(sum.SitesHit, uint32(i))
		}
	}
	if hw != nil {
		hw.Flush()
	}
	emitJSON(sum)
}

// cmdPlan replays one plan file and prints its record (with the full trace).
func cmdPlan(args []string) {
	if len(args) != 1 {
		fmt.Fprintln(os.Stderr, "usage: sim plan <file>")
		os.Exit(2)
	}
	raw, err := os.ReadFile(args[0])
	if err != nil {
		fmt.Fprintf(os.Stderr, "sim: %v\n", err)
		os.Exit(2)
	}
	var plan core.Plan
	if err := json.Unmarshal(raw, &plan); err != nil {
		fmt.Fprintf(os.Stderr, "sim: bad plan: %v\n", err)
		os.Exit(2)
	}
	p := getProp(plan.Property)
	verifsim.Hook = countHook
	fmt.Fprintf(out, "B 0\n")
	out.Flush()
	rec := &core.Record{Seed: plan.Seed, Mode: plan.Mode}
	if len(plan.Case) > 0 {
		if p.Enum == nil {
			fmt.Fprintln(os.Stderr, "sim: plan has an explicit case but the property has no enumerator")
			os.Exit(2)
		}
		sum := core.Summary{}
		e := &core.EnumCtx{Tier: plan.Tier, Shards: 1, Steps: &steps, OnlyCase: plan.Case, Sum: &sum,
			Emit:   func(r *core.Record) { *rec = *r },
			Begin:  func(string) {},
			Hashes: func(uint64, bool) {},
		}
		p.Enum(e)
		emitJSON(rec)
		return
	}
	c := &core.Ctx{Tape: core.ReplayTape(plan.Tape), Tier: plan.Tier, Mode: plan.Mode, Rec: rec, Replay: true, Schedule: plan.Schedule, Verbose: true}
	if plan.Tape == nil {
		// a run identified by seed only (its child died before reporting the
		// tape): regenerate it, journalling every choice as it is made
		c.Tape = core.NewTape(plan.Seed)
		c.Replay = false
		c.Schedule = nil
		if strings.HasPrefix(plan.Mode, "@") {
			var k uint64
			fmt.Sscanf(plan.Mode[1:], "%d", &k)
			c.Mode = p.PickMode(k)
			rec.Mode = c.Mode
		}
		if j := os.Getenv("VERIF_JOURNAL"); j != "" {
			jf, err := os.OpenFile(j, os.O_CREATE|os.O_WRONLY|os.O_TRUNC, 0o644)
			if err != nil {
				fmt.Fprintf(os.Stderr, "sim: %v\n", err)
				os.Exit(2)
			}
			core.JournalFile = jf
			fmt.Fprintf(jf, "M %s\n", c.Mode)
			c.Tape.Journal = func(v uint32) { fmt.Fprintf(jf, "T %d\n", v) }
		}
	}
	runOne(p, c)
	rec.Sample = c.Trace
	rec.Plan = &core.Plan{Property: p.ID, Tier: plan.Tier, Mode: c.Mode, Seed: plan.Seed, Tape: c.Tape.Recorded(), Schedule: c.Schedule}
	emitJSON(rec)
}

func cmdEnum(args []string) {
	fs := flag.NewFlagSet("enum", flag.ExitOnError)
	prop := fs.String("prop", "", "property id")
	tier := fs.String("tier", "quick", "tier")
	shard := fs.Int("shard", 0, "shard index")
	shards := fs.Int("shards", 1, "number of shards")
	hashOut := fs.String("hashes", "", "file receiving the distinct-case hashes")
	fs.Parse(args)
	p := getProp(*prop)
	if p.Enum == nil {
		emitJSON(core.Summary{Summary: true})
		return
	}
	verifsim.Hook = countHook
	sum := core.Summary{Summary: true, SitesTotal: len(verifsim.Sites)}
	var hw *bufio.Writer
	if *hashOut != "" {
		f, err := os.Create(*hashOut)
		if err != nil {
			fmt.Fprintf(os.Stderr, "sim: %v\n", err)
			os.Exit(2)
		}
		defer f.Close()
		hw = bufio.NewWriterSize(f, 1<<16)
		defer hw.Flush()
	}
	e := &core.EnumCtx{Tier: *tier, Shard: *shard, Shards: *shards, Steps: &steps, Sum: &sum,
		Emit: func(r *core.Record) { emitJSON(r) },
		Begin: func(g string) {
			fmt.Fprintf(out, "G %s\n", g)
			out.Flush()
		},
		Hashes: func(h uint64, nontrivial bool) {
			if hw == nil {
				return
			}
			var buf [9]byte
			binary.LittleEndian.PutUint64(buf[:8], h)
			if nontrivial {
				buf[8] = 1
			}
			hw.Write(buf[:])
		},
	}
	p.Enum(e)
	sum.Steps = steps
	for i, h := range siteHits {
		if h {
			sum.SitesHit = append(sum.SitesHit, uint32(i))
		}
	}
	if hw != nil {
		hw.Flush()
	}
	emitJSON(sum)
}
