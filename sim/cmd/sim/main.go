// Command sim is the child process of the simulator: it is built afresh for
// every check run against the instrumented scratch copy of the library and
// executes seeded runs, explicit plans (replay) or an enumeration shard.
//
// Protocol (stdout, one item per line, flushed after every line):
//
//	B <k>            before run k (so that a process death is attributable)
//	G <group>        before an enumeration group
//	{record json}    for violations, samples and replays
//	{summary json}   once, last
package main

import (
	"bufio"
	"encoding/binary"
	"encoding/json"
	"flag"
	"fmt"
	"os"
	"runtime"
	"runtime/debug"
	"runtime/pprof"
	"strings"
	"time"

	"github.com/go-ap/activitypub/verifsim"

	"verif.local/sim/core"
	_ "verif.local/sim/props/c04"
	_ "verif.local/sim/props/c12"
	_ "verif.local/sim/props/c13"
	_ "verif.local/sim/props/c19"
	"verif.local/sim/sched"
	"verif.local/sim/simrt"
	"verif.local/sim/warm"
)

var out = bufio.NewWriterSize(os.Stdout, 1<<16)

func emitJSON(v any) {
	b, err := json.Marshal(v)
	if err != nil {
		fmt.Fprintf(os.Stderr, "sim: marshal: %v\n", err)
		os.Exit(2)
	}
	out.Write(b)
	out.WriteByte('\n')
	out.Flush()
}

// progress is bumped at every run / group; the watchdog goroutine (real
// clock, used for nothing but this) ends the process when it stalls, so that a
// loop inside an uninstrumented dependency cannot hold a worker for ever.

func startWatchdog(stall time.Duration) {
	go func() {
		last, since := simrt.Progress.Load(), time.Now()
		for {
			time.Sleep(500 * time.Millisecond)
			if cur := simrt.Progress.Load(); cur != last {
				last, since = cur, time.Now()
				continue
			}
			if time.Since(since) > stall {
				fmt.Fprintf(os.Stderr, "verif-watchdog: no progress for %v\n", stall)
				buf := make([]byte, 1<<16)
				n := runtime.Stack(buf, true)
				os.Stderr.Write(buf[:n])
				os.Exit(77)
			}
		}
	}()
}

func main() {
	debug.SetGCPercent(200)
	if len(os.Args) < 2 {
		fmt.Fprintln(os.Stderr, "usage: sim run|plan|enum ...")
		os.Exit(2)
	}
	warm.Gob()
	mainG := sched.Getg()
	simrt.IsForeign = func() bool { return sched.Getg() != mainG }
	simrt.SiteHits = make([]bool, len(verifsim.Sites))
	if pf := os.Getenv("VERIF_CPUPROFILE"); pf != "" {
		f, err := os.Create(pf)
		if err == nil {
			pprof.StartCPUProfile(f)
			defer pprof.StopCPUProfile()
		}
	}
	switch os.Args[1] {
	case "run":
		cmdRun(os.Args[2:])
	case "plan":
		cmdPlan(os.Args[2:])
	case "enum":
		cmdEnum(os.Args[2:])
	default:
		fmt.Fprintln(os.Stderr, "usage: sim run|plan|enum ...")
		os.Exit(2)
	}
	out.Flush()
}

func getProp(id string) *core.Prop {
	p := core.Registry[id]
	if p == nil {
		fmt.Fprintf(os.Stderr, "sim: unknown property %q\n", id)
		os.Exit(2)
	}
	return p
}

// runOne executes one run under the panic oracle and returns its record.
// wireClock puts the library's clock reads (redirected by the instrumenter) on the simulated clock.
func wireClock() {
	verifsim.ClockHook = simrt.Now
	verifsim.OrderHook = simrt.MapOrder
	verifsim.SleepHook = simrt.Sleep
	simrt.ClockReads = &verifsim.ClockReads
}

func runOne(p *core.Prop, c *core.Ctx) {
	simrt.ResetClock(c.Rec.Seed)
	simrt.ResetOrder(c.Rec.Seed)
	if p.ID == "C04" {
		// the time bound of a decode also counts the bytes moved and scanned by bulk primitives
		verifsim.WorkHook = simrt.Work
	}
	simrt.Steps = 0
	simrt.Limit = 0
	c.Steps = &simrt.Steps
	defer func() {
		c.Rec.Steps = simrt.Steps
		simrt.Limit = 0
		if r := recover(); r != nil {
			if hp, ok := r.(simrt.HangPanic); ok {
				site := "?"
				if int(hp.Site) < len(verifsim.Sites) {
					site = verifsim.Sites[hp.Site]
				}
				fn := site[strings.LastIndex(site, ":")+1:]
				c.Fail("hang", fmt.Sprintf("%s/hang/%s", p.ID, fn), "step budget exhausted (simulated time) at %s after trace %s", site, strings.Join(tail(c.Trace, 6), "; "))
				return
			}
			frame, kind := simrt.PanicSite(r)
			c.Fail("panic", fmt.Sprintf("%s/panic/%s/%s", p.ID, frame, kind), "panic: %v (at %s) after trace %s", r, frame, strings.Join(tail(c.Trace, 6), "; "))
		}
	}()
	p.Run(c)
}

func tail(s []string, n int) []string {
	if len(s) > n {
		return s[len(s)-n:]
	}
	return s
}

func tapeBytes(t []uint32) []byte {
	b := make([]byte, 0, 4*len(t))
	for _, v := range t {
		b = append(b, byte(v), byte(v>>8), byte(v>>16), byte(v>>24))
	}
	return b
}

func schedBytes(s [][2]int64) []byte {
	b := make([]byte, 0, 16*len(s))
	for _, v := range s {
		b = append(b, []byte(fmt.Sprintf("%d>%d;", v[0], v[1]))...)
	}
	return b
}

func cmdRun(args []string) {
	fs := flag.NewFlagSet("run", flag.ExitOnError)
	prop := fs.String("prop", "", "property id")
	tier := fs.String("tier", "quick", "tier")
	seed := fs.Uint64("seed", 1, "batch seed")
	from := fs.Uint64("from", 0, "first run index")
	to := fs.Uint64("to", 0, "one past the last run index")
	stride := fs.Uint64("stride", 1, "run every stride-th index starting at from")
	samples := fs.Int("samples", 0, "emit this many sample records")
	hashOut := fs.String("hashes", "", "file receiving the distinct-case hashes (binary, 9 bytes per run)")
	bbox := fs.String("blackbox", "", "shared file receiving the input of the operation in flight")
	stall := fs.Duration("stall", 0, "end the process when a run makes no progress for this long")
	allRecs := fs.Bool("all-records", false, "emit a (short) record for every run: determinism self-test")
	until := fs.Int64("until", 0, "stop before a run that would start after this unix time in ns (wall budget of the batch)")
	fs.Parse(args)
	p := getProp(*prop)
	if *bbox != "" {
		if err := simrt.OpenBlackBox(*bbox, 1<<20); err != nil {
			fmt.Fprintf(os.Stderr, "sim: blackbox: %v\n", err)
			os.Exit(2)
		}
	}
	if *stall > 0 {
		startWatchdog(*stall)
	}
	verifsim.Hook = simrt.Hook
	verifsim.BlockedHook = simrt.Blocked
	wireClock()
	sum := core.Summary{Summary: true, SitesTotal: len(verifsim.Sites)}
	var hw *bufio.Writer
	if *hashOut != "" {
		f, err := os.Create(*hashOut)
		if err != nil {
			fmt.Fprintf(os.Stderr, "sim: %v\n", err)
			os.Exit(2)
		}
		defer f.Close()
		hw = bufio.NewWriterSize(f, 1<<16)
		defer hw.Flush()
	}
	for k := *from; k < *to; k += *stride {
		if *until > 0 && time.Now().UnixNano() > *until {
			// the batch's wall budget is used up: stop cleanly so that what ran is accounted for
			if sum.Extra == nil {
				sum.Extra = map[string]any{}
			}
			sum.Extra["stopped_at_deadline"] = true
			break
		}
		fmt.Fprintf(out, "B %d\n", k)
		out.Flush()
		simrt.Progress.Add(1)
		runSeed := core.Mix(*seed, k)
		rec := &core.Record{Seed: runSeed, Mode: p.PickMode(k)}
		c := &core.Ctx{Tape: core.NewTape(runSeed), Tier: *tier, Mode: rec.Mode, Rec: rec, RunIndex: k}
		runOne(p, c)
		sum.Runs++
		sum.Steps += rec.Steps
		sum.Switches += rec.Switches
		sum.Faults = core.AddCounts(sum.Faults, rec.Faults)
		sum.Probes = core.AddCounts(sum.Probes, rec.Probes)
		for h, m := range rec.Counts {
			if sum.Counts == nil {
				sum.Counts = map[string]map[string]int{}
			}
			sum.Counts[h] = core.AddCounts(sum.Counts[h], m)
		}
		if hw != nil {
			for _, xh := range rec.ExtraHashes {
				var buf [9]byte
				binary.LittleEndian.PutUint64(buf[:8], xh)
				buf[8] = 2
				hw.Write(buf[:])
			}
		}
		if hw != nil {
			var buf [9]byte
			h := core.Hash64([]byte(rec.Mode + "|" + rec.CaseHash))
			binary.LittleEndian.PutUint64(buf[:8], h)
			if rec.Nontriv {
				buf[8] = 1
			}
			hw.Write(buf[:])
		}
		if rec.Viol != nil {
			rec.Plan = &core.Plan{Property: p.ID, Tier: *tier, Mode: rec.Mode, Seed: runSeed, Tape: c.Tape.Recorded(), Schedule: c.Schedule, RunIndex: k}
			if c.PlanOut != nil {
				rec.Plan = c.PlanOut
			}
			if rec.Plan.Entry == "" {
				rec.Plan.HistorySeed, rec.Plan.HistoryFrom, rec.Plan.HistoryStride = *seed, *from, *stride
			}
			rec.Sample = c.Trace
			emitJSON(rec)
		} else if *allRecs {
			if os.Getenv("VERIF_DEBUG_TRACE") != "" {
				fmt.Fprintf(os.Stderr, "TRACE %d: %s\n", k, strings.Join(c.Trace, " | "))
			}
			h := core.Hash64([]byte(strings.Join(c.Trace, "\n")))
			// gauges (max_*) are measurements of the Go runtime (bytes allocated), not decisions of the run
			for pk := range rec.Probes {
				if strings.HasPrefix(pk, "max_") {
					delete(rec.Probes, pk)
				}
			}
			emitJSON(map[string]any{"det": k, "mode": rec.Mode, "steps": rec.Steps, "switches": rec.Switches, "case": rec.CaseHash, "log": rec.LogHash,
				"trace": fmt.Sprintf("%016x", h), "faults": rec.Faults, "probes": rec.Probes, "tape": core.Hash64(tapeBytes(c.Tape.Recorded())), "sched": core.Hash64(schedBytes(c.Schedule))})
		} else if *samples > 0 && rec.Nontriv {
			*samples--
			rec.Sample = c.Trace
			emitJSON(rec)
		}
		if simrt.Tainted {
			// the library was unwound by a budget panic in this process: its package-level state (locks,
			// caches) is no longer what a run may assume. Report what ran; the parent starts a fresh
			// process for the runs after this one.
			if sum.Extra == nil {
				sum.Extra = map[string]any{}
			}
			sum.Extra["restart_after"] = float64(k)
			break
		}
	}
	for i, h := range simrt.SiteHits {
		if h {
			sum.SitesHit = append(sum.SitesHit, uint32(i))
		}
	}
	if hw != nil {
		hw.Flush()
	}
	emitJSON(sum)
}

// cmdPlan replays one plan file and prints its record (with the full trace).
func cmdPlan(args []string) {
	if len(args) != 1 {
		fmt.Fprintln(os.Stderr, "usage: sim plan <file>")
		os.Exit(2)
	}
	raw, err := os.ReadFile(args[0])
	if err != nil {
		fmt.Fprintf(os.Stderr, "sim: %v\n", err)
		os.Exit(2)
	}
	var plan core.Plan
	if err := json.Unmarshal(raw, &plan); err != nil {
		fmt.Fprintf(os.Stderr, "sim: bad plan: %v\n", err)
		os.Exit(2)
	}
	p := getProp(plan.Property)
	verifsim.Hook = simrt.Hook
	verifsim.BlockedHook = simrt.Blocked
	wireClock()
	fmt.Fprintf(out, "B 0\n")
	out.Flush()
	if plan.HistoryOn && plan.HistoryStride > 0 {
		// the runs this process executed before the failing one, re-executed silently
		for k := plan.HistoryFrom; k < plan.RunIndex; k += plan.HistoryStride {
			simrt.Progress.Add(1)
			runSeed := core.Mix(plan.HistorySeed, k)
			hrec := &core.Record{Seed: runSeed, Mode: p.PickMode(k)}
			runOne(p, &core.Ctx{Tape: core.NewTape(runSeed), Tier: plan.Tier, Mode: hrec.Mode, Rec: hrec, RunIndex: k})
			if simrt.Tainted {
				break
			}
		}
	}
	rec := &core.Record{Seed: plan.Seed, Mode: plan.Mode}
	if len(plan.Case) > 0 {
		if p.Enum == nil {
			fmt.Fprintln(os.Stderr, "sim: plan has an explicit case but the property has no enumerator")
			os.Exit(2)
		}
		sum := core.Summary{}
		e := &core.EnumCtx{Tier: plan.Tier, Shards: 1, Steps: &simrt.Steps, OnlyCase: plan.Case, Sum: &sum,
			Emit:    func(r *core.Record) { *rec = *r },
			Begin:   func(string) {},
			Hashes:  func(uint64, bool) {},
			Expired: func() bool { return false },
		}
		p.Enum(e)
		emitJSON(rec)
		return
	}
	c := &core.Ctx{Tape: core.ReplayTape(plan.Tape), Tier: plan.Tier, Mode: plan.Mode, Rec: rec, Replay: true, Schedule: plan.Schedule, Verbose: true, Entry: plan.Entry, Input: plan.Input, Knobs: plan.Knobs, RunIndex: plan.RunIndex}
	if plan.Tape == nil && plan.Entry == "" {
		// a run identified by seed only (its child died before reporting the
		// tape): regenerate it, journalling every choice as it is made
		c.Tape = core.NewTape(plan.Seed)
		c.Replay = false
		c.Schedule = nil
		if strings.HasPrefix(plan.Mode, "@") {
			var k uint64
			fmt.Sscanf(plan.Mode[1:], "%d", &k)
			c.RunIndex = k
			c.Mode = p.PickMode(k)
			rec.Mode = c.Mode
		}
		if j := os.Getenv("VERIF_JOURNAL"); j != "" {
			jf, err := os.OpenFile(j, os.O_CREATE|os.O_WRONLY|os.O_TRUNC, 0o644)
			if err != nil {
				fmt.Fprintf(os.Stderr, "sim: %v\n", err)
				os.Exit(2)
			}
			core.JournalFile = jf
			fmt.Fprintf(jf, "M %s\n", c.Mode)
			c.Tape.Journal = func(v uint32) { fmt.Fprintf(jf, "T %d\n", v) }
		}
	}
	runOne(p, c)
	rec.Sample = c.Trace
	rec.Plan = &core.Plan{Property: p.ID, Tier: plan.Tier, Mode: c.Mode, Seed: plan.Seed, Tape: c.Tape.Recorded(), Schedule: c.Schedule, Entry: plan.Entry, Input: plan.Input, RunIndex: c.RunIndex}
	emitJSON(rec)
}

func cmdEnum(args []string) {
	fs := flag.NewFlagSet("enum", flag.ExitOnError)
	prop := fs.String("prop", "", "property id")
	tier := fs.String("tier", "quick", "tier")
	shard := fs.Int("shard", 0, "shard index")
	shards := fs.Int("shards", 1, "number of shards")
	hashOut := fs.String("hashes", "", "file receiving the distinct-case hashes")
	bbox := fs.String("blackbox", "", "shared file receiving the input of the operation in flight")
	stall := fs.Duration("stall", 0, "end the process when a group makes no progress for this long")
	until := fs.Int64("until", 0, "stop enumerating after this unix time in ns")
	fromGroup := fs.Int("from-group", 0, "skip the groups below this index (enumerated by an earlier process of this shard)")
	fs.Parse(args)
	p := getProp(*prop)
	if *bbox != "" {
		if err := simrt.OpenBlackBox(*bbox, 1<<20); err != nil {
			fmt.Fprintf(os.Stderr, "sim: blackbox: %v\n", err)
			os.Exit(2)
		}
	}
	if *stall > 0 {
		startWatchdog(*stall)
	}
	if p.Enum == nil {
		emitJSON(core.Summary{Summary: true})
		return
	}
	verifsim.Hook = simrt.Hook
	verifsim.BlockedHook = simrt.Blocked
	wireClock()
	sum := core.Summary{Summary: true, SitesTotal: len(verifsim.Sites)}
	var hw *bufio.Writer
	if *hashOut != "" {
		f, err := os.Create(*hashOut)
		if err != nil {
			fmt.Fprintf(os.Stderr, "sim: %v\n", err)
			os.Exit(2)
		}
		defer f.Close()
		hw = bufio.NewWriterSize(f, 1<<16)
		defer hw.Flush()
	}
	expired := false
	e := &core.EnumCtx{Tier: *tier, Shard: *shard, Shards: *shards, Steps: &simrt.Steps, Sum: &sum, FromGroup: *fromGroup,
		Expired: func() bool {
			if expired {
				return true
			}
			if *until > 0 && time.Now().UnixNano() > *until {
				expired = true
			}
			return expired
		},
		Emit: func(r *core.Record) { emitJSON(r) },
		Begin: func(g string) {
			fmt.Fprintf(out, "G %s\n", g)
			out.Flush()
			simrt.Progress.Add(1)
		},
		Hashes: func(h uint64, nontrivial bool) {
			if hw == nil {
				return
			}
			var buf [9]byte
			binary.LittleEndian.PutUint64(buf[:8], h)
			if nontrivial {
				buf[8] = 1
			}
			hw.Write(buf[:])
		},
	}
	p.Enum(e)
	if expired {
		if sum.Extra == nil {
			sum.Extra = map[string]any{}
		}
		sum.Extra["stopped_at_deadline"] = true
	}
	sum.Steps = simrt.Steps
	for i, h := range simrt.SiteHits {
		if h {
			sum.SitesHit = append(sum.SitesHit, uint32(i))
		}
	}
	if hw != nil {
		hw.Flush()
	}
	emitJSON(sum)
}
