package main

import (
	"fmt"
	"regexp"
	"sort"
	"strings"
)

const libPrefix = "github.com/go-ap/activitypub."

// firstLibFrame returns the first traceback line naming a function of the
// library (not of the generated verifsim hook package).
func firstLibFrame(trace string) string {
	for _, ln := range strings.Split(trace, "\n") {
		ln = strings.TrimSpace(ln)
		if !strings.HasPrefix(ln, libPrefix) || strings.HasPrefix(ln, libPrefix+"verifsim") {
			continue
		}
		return cleanFunc(ln)
	}
	return "outside-library"
}

var (
	reArgs    = regexp.MustCompile(`\(.*$`)
	reFuncLit = regexp.MustCompile(`\.func\d+(\.\d+)*$`)
	reGeneric = regexp.MustCompile(`\[\.\.\.\]`)
)

var reRecv = regexp.MustCompile(`\(\*?([A-Za-z0-9_\[\]\.,\* ]+)\)\.`)

func cleanFunc(ln string) string {
	// "(*Actor).GetType(0xc0…)" -> "Actor.GetType": the receiver's parentheses first, then the arguments
	fn := reRecv.ReplaceAllString(ln, "$1.")
	fn = reArgs.ReplaceAllString(fn, "")
	fn = strings.TrimPrefix(fn, libPrefix)
	fn = strings.TrimPrefix(fn, "github.com/")
	fn = reGeneric.ReplaceAllString(fn, "")
	fn = reFuncLit.ReplaceAllString(fn, "")
	fn = strings.ReplaceAll(fn, "(*", "")
	fn = strings.ReplaceAll(fn, ")", "")
	return fn
}

// classifyDeath maps a dead child onto (oracle, class, detail).
// ok == false means the death is harness trouble, not a finding (exit 2).
func classifyDeath(prop string, d death) (oracle, class, detail string, ok bool) {
	st := d.stderr
	switch {
	case strings.Contains(st, "verif-sched: tasks blocked on each other"):
		return "deadlock", prop + "/deadlock", "under this schedule the tasks ended up blocked on each other for ever (every hand-over found the next task blocked as well): a deadlock or livelock of the code under test", true
	case strings.Contains(st, "verif-watchdog:"):
		if prop == "C12" {
			// the scheduler makes Lock / RLock / Once.Do cooperative; a stall means the code blocks
			// on something else (a channel, a WaitGroup, a Cond) that the simulator cannot schedule
			return "hang", prop + "/hang/wall-clock", "a task blocked on a primitive the scheduler does not make cooperative (channel, WaitGroup, Cond): this simulator cannot decide the run", false
		}
		return "hang", prop + "/hang/wall-clock", "the run made no progress for the watchdog period (a loop outside the instrumented statements)\n" + excerpt(afterFirst(st, "verif-watchdog:")), true
	case strings.Contains(st, "WARNING: DATA RACE"):
		cls, det, lib := classifyRace(st)
		if !lib {
			return "race", prop + "/race/harness-only", det, false
		}
		return "race", prop + "/race/" + cls, det, true
	case strings.Contains(st, "stack overflow") || strings.Contains(st, "goroutine stack exceeds"):
		return "death", prop + "/death/stack-overflow/" + repeatedLibFrame(st), excerpt(st), true
	case strings.Contains(st, "checkptr:"):
		return "death", prop + "/death/checkptr/" + firstLibFrame(afterFirst(st, "goroutine ")), excerpt(st), true
	case strings.Contains(st, "out of memory") || strings.Contains(st, "cannot allocate memory"):
		return "death", prop + "/death/out-of-memory/" + firstLibFrame(afterFirst(st, "goroutine ")), excerpt(st), true
	case strings.Contains(st, "fatal error:") || strings.Contains(st, "unexpected signal") || strings.Contains(st, "SIGSEGV"):
		return "death", prop + "/death/fatal/" + firstLibFrame(afterFirst(st, "goroutine ")), excerpt(st), true
	case strings.Contains(st, "panic:"):
		// a panic outside the recovering wrapper (e.g. in another goroutine)
		return "death", prop + "/death/panic/" + firstLibFrame(afterFirst(st, "goroutine ")), excerpt(st), true
	}
	return "death", prop + "/death/unknown", fmt.Sprintf("exit=%d signal=%s stderr=%s", d.exit, d.signal, excerpt(st)), false
}

func afterFirst(s, marker string) string {
	if i := strings.Index(s, marker); i >= 0 {
		return s[i:]
	}
	return s
}

func excerpt(s string) string {
	lines := strings.Split(s, "\n")
	if len(lines) > 40 {
		lines = lines[:40]
	}
	return strings.Join(lines, "\n")
}

// repeatedLibFrame names the library function of a stack-overflow trace.
func repeatedLibFrame(st string) string { return firstLibFrame(afterFirst(st, "goroutine ")) }

var reAccess = regexp.MustCompile(`^(Write|Read|Previous write|Previous read|Atomic write|Atomic read|Previous atomic write|Previous atomic read) at 0x[0-9a-f]+ by (main goroutine|goroutine \d+)`)

// classifyRace extracts the two conflicting accesses of the first race report.
func classifyRace(st string) (class, detail string, lib bool) {
	lines := strings.Split(st, "\n")
	type access struct {
		kind   string
		frames []string
	}
	var accs []access
	cur := -1
	done := false
	var det []string
	for _, ln := range lines {
		if done {
			break
		}
		t := strings.TrimSpace(ln)
		if m := reAccess.FindStringSubmatch(t); m != nil {
			kind := strings.ToLower(strings.TrimPrefix(strings.TrimPrefix(m[1], "Previous "), "previous "))
			accs = append(accs, access{kind: kind})
			cur = len(accs) - 1
			det = append(det, t)
			continue
		}
		if strings.HasPrefix(t, "Goroutine ") || strings.HasPrefix(t, "==================") && len(accs) > 0 {
			if len(accs) >= 2 {
				done = true
			}
			cur = -1
			continue
		}
		if cur >= 0 && t != "" && !strings.HasPrefix(t, "/") && strings.HasSuffix(t, ")") {
			accs[cur].frames = append(accs[cur].frames, strings.TrimSuffix(t, "()"))
			if len(accs[cur].frames) <= 6 {
				det = append(det, "  "+t)
			}
		}
	}
	var parts []string
	seam := false
	for _, a := range accs {
		// the innermost frame says whose memory was touched: an access made by the injected seam
		// itself (verifsim.Y reading its hook variable, say) or by the scheduler is an access to
		// the harness's own memory, whatever library function called the seam – and both accesses
		// of a report are to the same address. Such a report is never pinned on the library.
		if len(a.frames) > 0 {
			f0 := a.frames[0]
			if strings.HasPrefix(f0, libPrefix+"verifsim") || (strings.HasPrefix(f0, "verif.local/sim") && !strings.HasPrefix(f0, "verif.local/sim/gen.")) {
				seam = true
			}
		}
		top, firstOther, fingerprint := "", "", false
		for _, f := range a.frames {
			if strings.HasPrefix(f, "verif.local/sim/gen.") {
				fingerprint = true
			}
			if strings.HasPrefix(f, "verif.local/sim") || strings.HasPrefix(f, "runtime.") || strings.HasPrefix(f, libPrefix+"verifsim") {
				continue
			}
			if strings.HasPrefix(f, libPrefix) {
				if top == "" {
					top = f
				}
				continue
			}
			if firstOther == "" {
				firstOther = f
			}
		}
		switch {
		case fingerprint:
			// the O2 fingerprint walker reading the shared value on a task's goroutine
			parts = append(parts, a.kind+"@harness-fingerprint")
		case top != "":
			lib = true
			parts = append(parts, a.kind+"@"+cleanFunc(top))
		case firstOther != "":
			// an access inside a dependency or the standard library with no library frame above it
			lib = true
			parts = append(parts, a.kind+"@"+cleanFunc(firstOther))
		default:
			parts = append(parts, a.kind+"@harness")
		}
	}
	sort.Strings(parts)
	if seam {
		lib = false
	}
	return strings.Join(parts, "|"), strings.Join(det, "\n"), lib
}
