package main

import (
	"sync"
	"time"

	"verif.local/sim/core"
)

// evaluator runs a plan in a fresh child process and reports the violation
// class it produced ("" if none) together with the record (nil on death).
type evaluator struct {
	bin     string
	env     []string
	memKB   int64
	dir     string
	prop    string
	timeout time.Duration
	race    bool
	evals   int
	mu      sync.Mutex
}

type evalResult struct {
	class  string
	oracle string
	detail string
	rec    *core.Record
	hard   bool // harness trouble (exit 2 material)
}

func (e *evaluator) eval(plan *core.Plan) evalResult {
	e.mu.Lock()
	e.evals++
	e.mu.Unlock()
	rec, res := runPlan(e.bin, plan, e.env, e.memKB, e.dir, e.timeout)
	if rec != nil {
		if rec.Viol != nil {
			return evalResult{class: rec.Viol.Class, oracle: rec.Viol.Oracle, detail: rec.Viol.Detail, rec: rec}
		}
		return evalResult{rec: rec}
	}
	if res.timedOut {
		return evalResult{class: e.prop + "/hang/wall-clock", oracle: "hang", detail: "replay exceeded the wall-clock watchdog"}
	}
	if res.exitCode == 0 {
		return evalResult{hard: true, detail: "child produced no record: " + tailStr(res.stderr, 2000)}
	}
	d := death{k: 0, exit: res.exitCode, signal: res.signal, stderr: res.stderr, race: e.race}
	oracle, class, detail, ok := classifyDeath(e.prop, d)
	return evalResult{class: class, oracle: oracle, detail: detail, hard: !ok}
}

// minimise shrinks the plan's tape (and schedule) with delta debugging while
// the same violation class persists. Candidates of one pass are evaluated
// concurrently; the first one (in candidate order) that still fails wins.
func minimise(e *evaluator, plan *core.Plan, class string, budget time.Duration) (*core.Plan, int) {
	deadline := time.Now().Add(budget)
	cur := clonePlan(plan)
	before := e.evals
	try := func(cands []*core.Plan) *core.Plan {
		const par = 16
		for i := 0; i < len(cands); i += par {
			if time.Now().After(deadline) {
				return nil
			}
			j := i + par
			if j > len(cands) {
				j = len(cands)
			}
			results := make([]evalResult, j-i)
			var wg sync.WaitGroup
			for x := i; x < j; x++ {
				wg.Add(1)
				go func(x int) {
					defer wg.Done()
					results[x-i] = e.eval(cands[x])
				}(x)
			}
			wg.Wait()
			for x := i; x < j; x++ {
				r := results[x-i]
				if r.class == class {
					won := clonePlan(cands[x])
					// normalise to what the run actually consumed
					if r.rec != nil && r.rec.Plan != nil && len(r.rec.Plan.Tape) <= len(won.Tape) {
						won.Tape = append([]uint32(nil), r.rec.Plan.Tape...)
					}
					return won
				}
			}
		}
		return nil
	}
	progress := true
	for progress && time.Now().Before(deadline) {
		progress = false
		// 1. fewer context switches (C12): drop chunks of the schedule
		for size := len(cur.Schedule); size >= 1; size /= 2 {
			for {
				var cands []*core.Plan
				for i := 0; i+size <= len(cur.Schedule); i += size {
					c := clonePlan(cur)
					c.Schedule = append(append([][2]int64(nil), cur.Schedule[:i]...), cur.Schedule[i+size:]...)
					cands = append(cands, c)
				}
				if len(cands) == 0 {
					break
				}
				if w := try(cands); w != nil {
					cur = w
					progress = true
					if size > len(cur.Schedule) {
						break
					}
					continue
				}
				break
			}
		}
		// 1b. shrink explicit input bytes (C04): delete spans, then simplify bytes
		for size := len(cur.Input) / 2; size >= 1; size /= 2 {
			// (the candidates of one pass are all in memory at once: a pass over a multi-megabyte input
			// stops at the granularity at which they would exceed 256 MiB together; the input is then
			// reported at that size)
			if (len(cur.Input)/size)*len(cur.Input) > 256<<20 || time.Now().After(deadline) {
				break
			}
			for {
				var cands []*core.Plan
				for i := 0; i+size <= len(cur.Input); i += size {
					c := clonePlan(cur)
					c.Input = append(append([]byte{}, cur.Input[:i]...), cur.Input[i+size:]...)
					cands = append(cands, c)
				}
				if len(cands) == 0 {
					break
				}
				if w := try(cands); w != nil {
					cur = w
					progress = true
					if size > len(cur.Input) {
						break
					}
					continue
				}
				break
			}
		}
		if len(cur.Input) > 0 && len(cur.Input) <= 64 {
			var cands []*core.Plan
			for i, v := range cur.Input {
				for _, r := range []byte{'0', 'a', ' '} {
					if v == r || v == '0' {
						continue
					}
					c := clonePlan(cur)
					c.Input[i] = r
					cands = append(cands, c)
					break
				}
			}
			if w := try(cands); w != nil {
				cur = w
				progress = true
			}
		}
		// 2. delete spans of the tape
		for size := len(cur.Tape) / 2; size >= 1; size /= 2 {
			for {
				var cands []*core.Plan
				for i := 0; i+size <= len(cur.Tape); i += size {
					c := clonePlan(cur)
					c.Tape = append(append([]uint32(nil), cur.Tape[:i]...), cur.Tape[i+size:]...)
					cands = append(cands, c)
				}
				if len(cands) == 0 {
					break
				}
				if w := try(cands); w != nil {
					cur = w
					progress = true
					if size > len(cur.Tape) {
						break
					}
					continue
				}
				break
			}
		}
		// 3. zero, then lower, single values
		for pass := 0; pass < 2; pass++ {
			var cands []*core.Plan
			for i, v := range cur.Tape {
				if v == 0 {
					continue
				}
				c := clonePlan(cur)
				if pass == 0 {
					c.Tape[i] = 0
				} else {
					c.Tape[i] = v - 1
				}
				cands = append(cands, c)
			}
			for len(cands) > 0 {
				w := try(cands)
				if w == nil {
					break
				}
				cur = w
				progress = true
				// rebuild the candidate list against the new tape
				cands = cands[:0]
				for i, v := range cur.Tape {
					if v == 0 {
						continue
					}
					c := clonePlan(cur)
					if pass == 0 {
						c.Tape[i] = 0
					} else {
						c.Tape[i] = v - 1
					}
					cands = append(cands, c)
				}
				if pass == 1 {
					break // lowering is slow to converge; one improvement per outer round
				}
			}
		}
	}
	return cur, e.evals - before
}

func clonePlan(p *core.Plan) *core.Plan {
	c := *p
	c.Tape = append([]uint32(nil), p.Tape...)
	c.Schedule = append([][2]int64(nil), p.Schedule...)
	if p.Input != nil {
		c.Input = append([]byte{}, p.Input...)
	}
	c.Expect = nil
	c.Rendered = nil
	return &c
}
