package main

import (
	"bufio"
	"bytes"
	"encoding/binary"
	"encoding/json"
	"fmt"
	"io"
	"os"
	"os/exec"
	"path/filepath"
	"sort"
	"strings"
	"sync"
	"syscall"
	"time"

	"verif.local/sim/core"
	"verif.local/sim/simrt"
)

// childResult is what one child process produced.
type childResult struct {
	records  []*core.Record
	summary  *core.Summary
	lastB    int64  // last "B k" seen, -1 if none
	lastG    string // last "G group" seen
	exitCode int
	signal   string
	stderr   string
	timedOut bool
}

type childOpts struct {
	bin     string
	args    []string
	env     []string
	timeout time.Duration
	memKB   int64 // ulimit -v for plain binaries (0 = none)
}

// runChild runs one child to completion and parses its protocol output.
func runChild(o childOpts) *childResult {
	res := &childResult{lastB: -1}
	var cmd *exec.Cmd
	if o.memKB > 0 {
		sh := fmt.Sprintf("ulimit -v %d; exec \"$0\" \"$@\"", o.memKB)
		cmd = exec.Command("/bin/sh", append([]string{"-c", sh, o.bin}, o.args...)...)
	} else {
		cmd = exec.Command(o.bin, o.args...)
	}
	cmd.Env = append(os.Environ(), o.env...)
	stdout, err := cmd.StdoutPipe()
	if err != nil {
		fatal2("pipe: %v", err)
	}
	var eb lockedBuffer
	cmd.Stderr = &eb
	if err := cmd.Start(); err != nil {
		fatal2("start %s: %v", o.bin, err)
	}
	var timer *time.Timer
	if o.timeout > 0 {
		timer = time.AfterFunc(o.timeout, func() {
			res.timedOut = true
			_ = cmd.Process.Kill()
		})
	}
	rd := bufio.NewReaderSize(stdout, 1<<20)
	for {
		line, err := rd.ReadBytes('\n')
		if len(line) > 0 {
			parseLine(res, bytes.TrimRight(line, "\n"))
		}
		if err != nil {
			break
		}
	}
	werr := cmd.Wait()
	if timer != nil {
		timer.Stop()
	}
	res.stderr = eb.String()
	if werr != nil {
		if ee, ok := werr.(*exec.ExitError); ok {
			res.exitCode = ee.ExitCode()
			if ws, ok := ee.Sys().(syscall.WaitStatus); ok && ws.Signaled() {
				res.signal = ws.Signal().String()
				res.exitCode = 128 + int(ws.Signal())
			}
		} else {
			res.exitCode = 2
		}
	}
	return res
}

type lockedBuffer struct {
	mu sync.Mutex
	b  bytes.Buffer
}

func (l *lockedBuffer) Write(p []byte) (int, error) {
	l.mu.Lock()
	defer l.mu.Unlock()
	if l.b.Len() > 1<<20 {
		return len(p), nil
	}
	return l.b.Write(p)
}
func (l *lockedBuffer) String() string { l.mu.Lock(); defer l.mu.Unlock(); return l.b.String() }

func parseLine(res *childResult, line []byte) {
	if len(line) == 0 {
		return
	}
	switch {
	case line[0] == 'B' && len(line) > 2 && line[1] == ' ':
		var k int64
		fmt.Sscanf(string(line[2:]), "%d", &k)
		res.lastB = k
	case line[0] == 'G' && len(line) > 2 && line[1] == ' ':
		res.lastG = string(line[2:])
	case line[0] == '{':
		if bytes.HasPrefix(line, []byte(`{"summary":true`)) {
			var s core.Summary
			if err := json.Unmarshal(line, &s); err == nil {
				res.summary = &s
			}
			return
		}
		var r core.Record
		if err := json.Unmarshal(line, &r); err == nil {
			res.records = append(res.records, &r)
		}
	}
}

// batch is the aggregate of a fan-out.
type batch struct {
	runs        int
	steps       int64
	switches    int64
	faults      map[string]int
	probes      map[string]int
	sitesHit    map[uint32]bool
	sitesTotal  int
	violations  []*core.Record
	samples     []*core.Record
	deaths      []death
	distinct    map[uint64]bool // nontrivial distinct case hashes
	distinct2   map[uint64]bool // second distinct-set (C12: preemption pairs)
	counts      map[string]map[string]int
	distinctAll int
	extra       map[string]any
	mu          sync.Mutex
}

// death is a run during which the child process died.
type death struct {
	k        int64
	group    string
	exit     int
	signal   string
	stderr   string
	timedOut bool
	race     bool
	entry    string // from the black box: what was being handed to the library
	input    []byte
	hasBox   bool
}

func newBatch() *batch {
	return &batch{faults: map[string]int{}, probes: map[string]int{}, sitesHit: map[uint32]bool{}, distinct: map[uint64]bool{}, distinct2: map[uint64]bool{}, counts: map[string]map[string]int{}, extra: map[string]any{}}
}

func (b *batch) absorb(res *childResult, hashFile string) {
	b.mu.Lock()
	defer b.mu.Unlock()
	for _, r := range res.records {
		if r.Viol != nil {
			b.violations = append(b.violations, r)
		} else {
			b.samples = append(b.samples, r)
		}
	}
	if s := res.summary; s != nil {
		b.runs += s.Runs
		b.steps += s.Steps
		b.switches += s.Switches
		core.AddCounts(b.faults, s.Faults)
		core.AddCounts(b.probes, s.Probes)
		for _, x := range s.SitesHit {
			b.sitesHit[x] = true
		}
		for h, m := range s.Counts {
			b.counts[h] = core.AddCounts(b.counts[h], m)
		}
		if s.SitesTotal > 0 {
			b.sitesTotal = s.SitesTotal
		}
		for k, v := range s.Extra {
			if k == "stopped_at_deadline" {
				b.extra["deadline_reached"] = true
				continue
			}
			if k == "restart_after" || k == "restart_from_group" {
				continue
			}
			if f, ok := v.(float64); ok {
				if old, ok := b.extra[k].(float64); ok {
					b.extra[k] = old + f
				} else {
					b.extra[k] = f
				}
			} else {
				b.extra[k] = v
			}
		}
	}
	if hashFile != "" {
		if raw, err := os.ReadFile(hashFile); err == nil {
			for i := 0; i+9 <= len(raw); i += 9 {
				switch raw[i+8] {
				case 2:
					b.distinct2[binary.LittleEndian.Uint64(raw[i:i+8])] = true
				case 1:
					b.distinctAll++
					b.distinct[binary.LittleEndian.Uint64(raw[i:i+8])] = true
				default:
					b.distinctAll++
				}
			}
		}
		_ = os.Remove(hashFile)
	}
}

// fanOutSeeds runs `total` seeded runs of a property over `workers` children.
// Worker w executes run indices w, w+workers, … . When a child dies in run k
// the death is recorded and the worker is restarted after k.
func fanOutSeeds(b *batch, bin string, prop, tier string, seed uint64, total uint64, workers int, env []string, memKB int64, samplesPerWorker int, deadline time.Time, race bool, blackbox bool, stall time.Duration) {
	if uint64(workers) > total {
		workers = int(total)
	}
	if workers < 1 {
		workers = 1
	}
	var wg sync.WaitGroup
	for w := 0; w < workers; w++ {
		wg.Add(1)
		go func(w int) {
			defer wg.Done()
			from := uint64(w)
			restarts := 0
			for from < total {
				hashFile := filepath.Join(filepath.Dir(bin), fmt.Sprintf("hashes.%s.%d.%d", prop, w, restarts))
				args := []string{"run", "--prop", prop, "--tier", tier,
					"--seed", fmt.Sprint(seed), "--from", fmt.Sprint(from), "--to", fmt.Sprint(total),
					"--stride", fmt.Sprint(workers), "--samples", fmt.Sprint(samplesPerWorker), "--hashes", hashFile}
				boxFile := ""
				if blackbox {
					boxFile = filepath.Join(filepath.Dir(bin), fmt.Sprintf("blackbox.%s.%d", prop, w))
					args = append(args, "--blackbox", boxFile)
				}
				if stall > 0 {
					args = append(args, "--stall", stall.String())
				}
				// the child stops by itself at the deadline and reports what it ran; the kill
				// timer is only the back-stop for a child that cannot (one very long run)
				args = append(args, "--until", fmt.Sprint(deadline.UnixNano()))
				to := time.Until(deadline) + 45*time.Second
				res := runChild(childOpts{bin: bin, args: args, env: env, timeout: to, memKB: memKB})
				b.absorb(res, hashFile)
				if res.summary != nil {
					if ra, ok := res.summary.Extra["restart_after"].(float64); ok {
						// a budget panic unwound the library in that process: fresh process for the rest
						from = uint64(ra) + uint64(workers)
						restarts++
						samplesPerWorker = 0
						b.mu.Lock()
						b.probes["process_restarted_after_budget_panic"]++
						b.mu.Unlock()
						continue
					}
					return
				}
				if res.timedOut {
					b.mu.Lock()
					b.extra["deadline_reached"] = true
					b.mu.Unlock()
					return
				}
				// the child died: attribute to the run whose B line was last
				b.mu.Lock()
				d := death{k: res.lastB, exit: res.exitCode, signal: res.signal, stderr: headTail(res.stderr, 12000), race: race}
				if boxFile != "" {
					d.entry, d.input, d.hasBox = simrt.ReadBlackBox(boxFile)
				}
				b.deaths = append(b.deaths, d)
				// runs completed before the death are not in a summary; count them
				if res.lastB >= int64(from) {
					b.runs += int((uint64(res.lastB)-from)/uint64(workers)) + 1
				}
				b.mu.Unlock()
				if res.lastB < int64(from) {
					// died before its first run: harness trouble, not a finding
					b.mu.Lock()
					b.extra["child_failed_to_start"] = tailStr(res.stderr, 2000)
					b.mu.Unlock()
					return
				}
				from = uint64(res.lastB) + uint64(workers)
				restarts++
				samplesPerWorker = 0
				if restarts > 2000 {
					return
				}
			}
		}(w)
	}
	wg.Wait()
}

// fanOutChunks runs `total` seeded runs as one child process per chunk of
// `chunk` consecutive run indices (C12's race batch: the first run of every
// process is a cold-start run).
func fanOutChunks(b *batch, bin string, prop, tier string, seed uint64, total, chunk uint64, workers int, env []string, deadline time.Time, race bool, stall time.Duration) {
	nChunks := (total + chunk - 1) / chunk
	next := make(chan uint64, nChunks)
	for c := uint64(0); c < nChunks; c++ {
		next <- c
	}
	close(next)
	var wg sync.WaitGroup
	for w := 0; w < workers; w++ {
		wg.Add(1)
		go func(w int) {
			defer wg.Done()
			for c := range next {
				if time.Now().After(deadline) {
					b.mu.Lock()
					b.extra["deadline_reached"] = true
					b.mu.Unlock()
					return
				}
				from, to := c*chunk, c*chunk+chunk
				if to > total {
					to = total
				}
				for from < to {
					hashFile := filepath.Join(filepath.Dir(bin), fmt.Sprintf("hashes.%s.c%d.%d", prop, c, from))
					args := []string{"run", "--prop", prop, "--tier", tier, "--seed", fmt.Sprint(seed), "--from", fmt.Sprint(from), "--to", fmt.Sprint(to),
						"--stride", "1", "--samples", "0", "--hashes", hashFile, "--until", fmt.Sprint(deadline.UnixNano())}
					if stall > 0 {
						args = append(args, "--stall", stall.String())
					}
					res := runChild(childOpts{bin: bin, args: args, env: env, timeout: time.Until(deadline) + 45*time.Second})
					b.absorb(res, hashFile)
					if res.summary != nil || res.timedOut {
						break
					}
					b.mu.Lock()
					b.deaths = append(b.deaths, death{k: res.lastB, exit: res.exitCode, signal: res.signal, stderr: headTail(res.stderr, 12000), race: race})
					if res.lastB >= int64(from) {
						b.runs += int(uint64(res.lastB)-from) + 1
					}
					b.mu.Unlock()
					if res.lastB < int64(from) {
						b.mu.Lock()
						b.extra["child_failed_to_start"] = tailStr(res.stderr, 2000)
						b.mu.Unlock()
						break
					}
					from = uint64(res.lastB) + 1
				}
			}
		}(w)
	}
	wg.Wait()
}

// fanOutEnum runs the property's exhaustive enumerator in `shards` children.
func fanOutEnum(b *batch, bin string, prop, tier string, shards int, env []string, memKB int64, deadline time.Time, blackbox bool, stall time.Duration) {
	var wg sync.WaitGroup
	for sh := 0; sh < shards; sh++ {
		wg.Add(1)
		go func(sh int) {
			defer wg.Done()
			hashFile := filepath.Join(filepath.Dir(bin), fmt.Sprintf("hashes.enum.%s.%d", prop, sh))
			fromGroup := 0
		again:
			args := []string{"enum", "--prop", prop, "--tier", tier, "--shard", fmt.Sprint(sh), "--shards", fmt.Sprint(shards), "--hashes", hashFile, "--from-group", fmt.Sprint(fromGroup)}
			boxFile := ""
			if blackbox {
				boxFile = filepath.Join(filepath.Dir(bin), fmt.Sprintf("blackbox.enum.%s.%d", prop, sh))
				args = append(args, "--blackbox", boxFile)
			}
			if stall > 0 {
				args = append(args, "--stall", stall.String())
			}
			args = append(args, "--until", fmt.Sprint(deadline.UnixNano()))
			to := time.Until(deadline) + 45*time.Second
			res := runChild(childOpts{bin: bin, args: args, env: env, timeout: to, memKB: memKB})
			b.absorb(res, hashFile)
			if res.summary != nil {
				if rg, ok := res.summary.Extra["restart_from_group"].(float64); ok && int(rg) > fromGroup {
					fromGroup = int(rg)
					b.mu.Lock()
					b.probes["process_restarted_after_budget_panic"]++
					b.mu.Unlock()
					goto again
				}
			}
			if res.summary == nil {
				b.mu.Lock()
				if res.timedOut {
					b.extra["deadline_reached"] = true
				} else {
					d := death{k: -1, group: res.lastG, exit: res.exitCode, signal: res.signal, stderr: headTail(res.stderr, 12000)}
					if boxFile != "" {
						d.entry, d.input, d.hasBox = simrt.ReadBlackBox(boxFile)
					}
					b.deaths = append(b.deaths, d)
				}
				b.mu.Unlock()
			}
		}(sh)
	}
	wg.Wait()
}

func tailStr(s string, n int) string {
	if len(s) > n {
		return s[len(s)-n:]
	}
	return s
}

// headTail keeps the beginning (where the Go runtime prints the fatal message
// and the faulting goroutine) and the end of a long stderr.
func headTail(s string, n int) string {
	if len(s) <= 2*n {
		return s
	}
	return s[:n] + "\n[...]\n" + s[len(s)-n:]
}

// runPlan replays a plan in a fresh child process and returns its record;
// a process death is mapped onto a synthetic violation record.
func runPlan(bin string, plan *core.Plan, env []string, memKB int64, dir string, timeout time.Duration) (*core.Record, *childResult) {
	f, err := os.CreateTemp(dir, "plan.*.json")
	if err != nil {
		fatal2("%v", err)
	}
	raw, _ := json.Marshal(plan)
	f.Write(raw)
	f.Close()
	defer os.Remove(f.Name())
	res := runChild(childOpts{bin: bin, args: []string{"plan", f.Name()}, env: env, timeout: timeout, memKB: memKB})
	if len(res.records) > 0 && res.exitCode == 0 {
		return res.records[len(res.records)-1], res
	}
	if res.exitCode == 0 && !res.timedOut {
		return nil, res
	}
	return nil, res
}

func sortedSites(m map[uint32]bool) []uint32 {
	out := make([]uint32, 0, len(m))
	for k := range m {
		out = append(out, k)
	}
	sort.Slice(out, func(i, j int) bool { return out[i] < out[j] })
	return out
}

var _ = io.EOF
var _ = strings.TrimSpace
