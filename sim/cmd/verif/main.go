// Command verif is the parent process of the simulator: build pipeline,
// fan-out, minimiser, evidence, replay and self-tests (DESIGN.md §2, §7).
package main

import (
	"encoding/json"
	"flag"
	"fmt"
	"os"
	"time"

	"verif.local/sim/core"
)

func usage() {
	fmt.Fprintln(os.Stderr, `usage:
  verif check <property> [--tier quick|thorough]
  verif replay <file>
  verif selftest-determinism [--props C19,...] [--seeds N]
  verif selftest-sensitivity [--props C19,...]`)
	os.Exit(2)
}

func main() {
	if len(os.Args) < 2 {
		usage()
	}
	switch os.Args[1] {
	case "check":
		if len(os.Args) < 3 {
			usage()
		}
		fs := flag.NewFlagSet("check", flag.ExitOnError)
		tier := fs.String("tier", "quick", "quick or thorough")
		fs.Parse(os.Args[3:])
		code := check(os.Args[2], *tier)
		cleanupAll()
		os.Exit(code)
	case "replay":
		if len(os.Args) != 3 {
			usage()
		}
		code := replay(os.Args[2])
		cleanupAll()
		os.Exit(code)
	case "selftest-determinism":
		code := selftestDeterminism(os.Args[2:])
		cleanupAll()
		os.Exit(code)
	case "selftest-sensitivity":
		code := selftestSensitivity(os.Args[2:])
		cleanupAll()
		os.Exit(code)
	default:
		usage()
	}
}

// replay re-executes a replay file against /repo's current working tree in a
// fresh process and reports whether the recorded violation reproduces.
func replay(path string) int {
	raw, err := os.ReadFile(path)
	if err != nil {
		fmt.Fprintf(os.Stderr, "verif: %v\n", err)
		return 2
	}
	var plan core.Plan
	if err := json.Unmarshal(raw, &plan); err != nil {
		fmt.Fprintf(os.Stderr, "verif: bad replay file: %v\n", err)
		return 2
	}
	cfg := configs[plan.Property]
	if cfg == nil {
		fmt.Fprintf(os.Stderr, "verif: unknown property %q in replay file\n", plan.Property)
		return 2
	}
	var meta struct {
		Oracle string `json:"oracle"`
	}
	_ = json.Unmarshal(raw, &meta)
	useRace := cfg.race && (meta.Oracle == "race" || !cfg.plain)
	sc := prepare(cfg.checkptr, useRace, !useRace)
	defer cleanupAll()
	gmp := "GOMAXPROCS=2"
	if cfg.gomaxprocs > 0 {
		gmp = fmt.Sprintf("GOMAXPROCS=%d", cfg.gomaxprocs)
	}
	ev := &evaluator{bin: sc.sim, env: []string{gmp}, memKB: cfg.memKB, dir: sc.dir, prop: plan.Property, timeout: cfg.runTimeout}
	if useRace {
		ev.bin, ev.memKB, ev.race = sc.simRace, 0, true
		ev.env = []string{gmp, "GORACE=halt_on_error=1 exitcode=66 atexit_sleep_ms=0 history_size=2", "GOMEMLIMIT=3GiB"}
	}
	expect := plan.Expect
	plan.Expect, plan.Rendered = nil, nil
	t0 := time.Now()
	r := ev.eval(&plan)
	if useRace && !r.hard && r.class == "" {
		// ThreadSanitizer keeps four accesses per 8-byte word and evicts them pseudo-randomly, so the
		// same schedule does not produce the report every single time: a race plan gets up to five runs
		for i := 0; i < 4 && r.class == "" && !r.hard; i++ {
			r = ev.eval(&plan)
		}
	}
	if r.hard {
		fmt.Fprintf(os.Stderr, "verif: replay failed to run: %s\n", r.detail)
		return 2
	}
	if r.rec != nil {
		out, _ := json.MarshalIndent(map[string]any{"steps": r.rec.Steps, "switches": r.rec.Switches, "log_hash": r.rec.LogHash, "trace": r.rec.Sample, "violation": r.rec.Viol}, "", " ")
		fmt.Println(string(out))
	}
	if r.class == "" {
		fmt.Printf("verif: replay of %s: no violation on this tree (%.1fs)\n", path, time.Since(t0).Seconds())
		return 0
	}
	same := expect == nil || expect.Class == r.class
	fmt.Printf("VIOLATION property=%s replay=%s\n  class=%s same_as_recorded=%v\n  %s\n", plan.Property, path, r.class, same, r.detail)
	return 1
}
