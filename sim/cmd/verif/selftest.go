package main

import (
	"bytes"
	"encoding/json"
	"flag"
	"fmt"
	"os"
	"os/exec"
	"path/filepath"
	"regexp"
	"strings"
	"sync"
	"time"
)

// mutant is a deliberate property-breaking change applied to a scratch copy of
// the library (never to /repo).
type mutant struct {
	ID       string `json:"id"`
	Property string `json:"property"`
	File     string `json:"file"`
	Find     string `json:"find"`
	Replace  string `json:"replace"`
	Note     string `json:"note"`
	// ExtraFind/ExtraReplace: a second edit in the same file (an import, a variable)
	ExtraFind    string `json:"extra_find,omitempty"`
	ExtraReplace string `json:"extra_replace,omitempty"`
	Patch        string `json:"patch,omitempty"` // alternatively: a unified diff under /verif (seeded/<id>/patch.diff)
	// ExpectMiss marks a change that lies outside what the check claims to decide
	// (kept in the matrix so that the limit stays visible); Why says which limit.
	// ExpectClean marks a change under which the property still HOLDS (a correctly
	// synchronised cache, a sync.Once): the check must stay quiet on it.
	ExpectClean bool   `json:"expect_clean,omitempty"`
	ExpectMiss  bool   `json:"expect_miss,omitempty"`
	Why         string `json:"why,omitempty"`
}

func loadMutants() []mutant {
	raw, err := os.ReadFile(filepath.Join(verifDir, "mutants.json"))
	if err != nil {
		fatal2("mutants.json: %v", err)
	}
	var m struct {
		Mutants []mutant `json:"mutants"`
	}
	if err := json.Unmarshal(raw, &m); err != nil {
		fatal2("mutants.json: %v", err)
	}
	return m.Mutants
}

// mutantCopy creates a scratch copy of /repo (without .git) carrying the change.
func mutantCopy(m mutant) (string, error) {
	base := "/dev/shm"
	if fi, err := os.Stat(base); err != nil || !fi.IsDir() {
		base = os.TempDir()
	}
	dir, err := os.MkdirTemp(base, "verif.mut.")
	if err != nil {
		return "", err
	}
	ents, _ := os.ReadDir("/repo")
	for _, e := range ents {
		if e.Name() == ".git" {
			continue
		}
		src := filepath.Join("/repo", e.Name())
		dst := filepath.Join(dir, e.Name())
		if e.IsDir() {
			if err := copyTree(src, dst); err != nil {
				return dir, err
			}
		} else if err := copyFile(src, dst); err != nil {
			return dir, err
		}
	}
	if m.Patch != "" {
		c := exec.Command("patch", "-p1", "-s", "-i", filepath.Join(verifDir, m.Patch))
		c.Dir = dir
		if out, err := c.CombinedOutput(); err != nil {
			return dir, fmt.Errorf("patch failed: %v: %s", err, out)
		}
		return dir, nil
	}
	p := filepath.Join(dir, m.File)
	raw, err := os.ReadFile(p)
	if err != nil {
		return dir, err
	}
	if n := strings.Count(string(raw), m.Find); n != 1 {
		return dir, fmt.Errorf("mutant %s: pattern occurs %d times in %s (want exactly 1)", m.ID, n, m.File)
	}
	out := strings.Replace(string(raw), m.Find, m.Replace, 1)
	if m.ExtraFind != "" {
		if n := strings.Count(out, m.ExtraFind); n != 1 {
			return dir, fmt.Errorf("mutant %s: extra pattern occurs %d times in %s (want exactly 1)", m.ID, n, m.File)
		}
		out = strings.Replace(out, m.ExtraFind, m.ExtraReplace, 1)
	}
	return dir, os.WriteFile(p, []byte(out), 0o644)
}

var reViolLine = regexp.MustCompile(`(?m)^VIOLATION property=(\S+) replay=(\S+)`)

// selftestSensitivity breaks each claimed property on purpose in a scratch
// copy and requires the quick check to report it with a replay that
// reproduces (DESIGN.md §2.8). Exit 0 iff every mutant is killed.
func selftestSensitivity(args []string) int {
	fs := flag.NewFlagSet("selftest-sensitivity", flag.ExitOnError)
	props := fs.String("props", "", "comma-separated property ids (default: all)")
	only := fs.String("only", "", "comma-separated mutant ids")
	tier := fs.String("tier", "quick", "tier to run")
	par := fs.Int("par", 2, "mutants checked concurrently")
	fs.Parse(args)
	muts := loadMutants()
	self, _ := os.Executable()
	type result struct {
		Mutant    mutant   `json:"mutant"`
		Killed    bool     `json:"killed"`
		Replayed  bool     `json:"replay_reproduces"`
		Classes   []string `json:"classes,omitempty"`
		Exit      int      `json:"check_exit"`
		WallS     float64  `json:"wall_s"`
		Error     string   `json:"error,omitempty"`
		BuildFail bool     `json:"build_failed,omitempty"`
	}
	var sel []mutant
	for _, m := range muts {
		if *props != "" && !strings.Contains(","+*props+",", ","+m.Property+",") {
			continue
		}
		if *only != "" && !strings.Contains(","+*only+",", ","+m.ID+",") {
			continue
		}
		sel = append(sel, m)
	}
	results := make([]result, len(sel))
	sem := make(chan struct{}, *par)
	var wg sync.WaitGroup
	for i, m := range sel {
		wg.Add(1)
		go func(i int, m mutant) {
			defer wg.Done()
			sem <- struct{}{}
			defer func() { <-sem }()
			t0 := time.Now()
			r := result{Mutant: m}
			dir, err := mutantCopy(m)
			if dir != "" {
				defer os.RemoveAll(dir)
			}
			if err != nil {
				r.Error = err.Error()
				results[i] = r
				return
			}
			out, err := os.MkdirTemp(filepath.Dir(dir), "verif.mutout.")
			if err != nil {
				r.Error = err.Error()
				results[i] = r
				return
			}
			defer os.RemoveAll(out)
			cmd := exec.Command(self, "check", m.Property, "--tier", *tier)
			cmd.Env = append(os.Environ(), "VERIF_REPO="+dir, "VERIF_OUTDIR="+out)
			var ob bytes.Buffer
			cmd.Stdout, cmd.Stderr = &ob, &ob
			err = cmd.Run()
			r.Exit = 0
			if ee, ok := err.(*exec.ExitError); ok {
				r.Exit = ee.ExitCode()
			}
			ms := reViolLine.FindAllStringSubmatch(ob.String(), -1)
			r.Killed = r.Exit == 1 && len(ms) > 0
			if r.Exit == 2 {
				r.Error = tailStr(ob.String(), 1500)
				r.BuildFail = strings.Contains(ob.String(), "building sim")
			}
			for _, mm := range ms {
				raw, err := os.ReadFile(mm[2])
				if err == nil {
					var x struct {
						Class string `json:"class"`
					}
					json.Unmarshal(raw, &x)
					r.Classes = append(r.Classes, x.Class)
				}
			}
			if r.Killed {
				// the minimised replay must reproduce against the same mutant in a fresh process
				rc := exec.Command(self, "replay", ms[0][2])
				rc.Env = append(os.Environ(), "VERIF_REPO="+dir, "VERIF_OUTDIR="+out)
				rerr := rc.Run()
				if ee, ok := rerr.(*exec.ExitError); ok && ee.ExitCode() == 1 {
					r.Replayed = true
				}
			}
			r.WallS = time.Since(t0).Seconds()
			results[i] = r
		}(i, m)
	}
	wg.Wait()
	killed, total := 0, 0
	for _, r := range results {
		total++
		status := "MISSED"
		if r.Mutant.ExpectClean {
			if r.Exit == 0 && !r.Killed {
				killed++
				status = "quiet (property holds)"
			} else {
				status = "FALSE ALARM"
			}
		} else if r.Mutant.ExpectMiss {
			total--
			status = "missed-as-documented"
			if r.Killed {
				status = "killed (was expected to be missed)"
			}
		} else if r.Killed && r.Replayed {
			killed++
			status = "killed"
		} else if r.Killed {
			status = "killed-but-replay-failed"
		} else if r.Error != "" {
			status = "error"
		}
		fmt.Printf("%-34s %-4s %-26s exit=%d %.0fs %s\n", r.Mutant.ID, r.Mutant.Property, status, r.Exit, r.WallS, strings.Join(r.Classes, ","))
		if r.Error != "" {
			fmt.Printf("    %s\n", strings.ReplaceAll(r.Error, "\n", "\n    "))
		}
	}
	fmt.Printf("sensitivity: %d/%d mutants killed with reproducing replays\n", killed, total)
	if *props == "" && *only == "" {
		raw, _ := json.MarshalIndent(map[string]any{"tier": *tier, "killed": killed, "total": total, "results": results}, "", " ")
		os.MkdirAll(filepath.Join(outDir, "evidence"), 0o755)
		os.WriteFile(filepath.Join(outDir, "evidence", "sensitivity.json"), raw, 0o644)
	}
	if killed != total {
		return 1
	}
	return 0
}

// selftestDeterminism proves that a run is a function of its seed: for every
// claimed property, the same run indices are executed in separate processes
// at GOMAXPROCS 1, 4 and 16, three times each, alone and in batches of
// different size (so that what ran before in the process cannot matter), and
// every observable of every run (steps, switches, interleaving hash,
// event-log hash, trace hash, tape hash, schedule hash, fault and probe
// counts) must be identical across all executions (DESIGN.md §2.8).
func selftestDeterminism(args []string) int {
	fs := flag.NewFlagSet("selftest-determinism", flag.ExitOnError)
	props := fs.String("props", "C04,C12,C13,C19", "comma-separated property ids")
	nSeeds := fs.Int("seeds", 200, "run indices per property")
	seed := fs.Uint64("seed", 1, "batch seed")
	race := fs.Bool("race", true, "also exercise the race binary for C12")
	fs.Parse(args)
	t0 := time.Now()
	type obs = map[int64]string
	report := map[string]any{}
	bad := 0
	for _, pid := range strings.Split(*props, ",") {
		cfg := configs[pid]
		if cfg == nil {
			continue
		}
		sc := prepare(cfg.checkptr, cfg.race && *race, true)
		bins := []struct {
			name string
			bin  string
			env  []string
		}{{"plain", sc.sim, nil}}
		if cfg.race && *race {
			bins = append(bins, struct {
				name string
				bin  string
				env  []string
			}{"race", sc.simRace, []string{"GORACE=halt_on_error=1 exitcode=66 atexit_sleep_ms=0 history_size=2"}})
		}
		for _, bn := range bins {
			var ref obs
			execs, mismatches := 0, []string{}
			var mu sync.Mutex
			type job struct {
				gmp   int
				batch int // runs per process
			}
			jobs := []job{{1, 1}, {4, 1}, {16, 1}, {4, 7}, {16, *nSeeds}, {1, 13}, {8, 1}, {8, 50}, {2, 3}}
			results := make([]obs, len(jobs))
			var wg sync.WaitGroup
			sem := make(chan struct{}, 12)
			for ji, jb := range jobs {
				results[ji] = obs{}
				for from := 0; from < *nSeeds; from += jb.batch {
					to := from + jb.batch
					if to > *nSeeds {
						to = *nSeeds
					}
					wg.Add(1)
					go func(ji int, jb job, from, to int) {
						defer wg.Done()
						sem <- struct{}{}
						defer func() { <-sem }()
						res := runChildRaw(bn.bin, []string{"run", "--prop", pid, "--tier", "quick", "--seed", fmt.Sprint(*seed), "--from", fmt.Sprint(from), "--to", fmt.Sprint(to), "--all-records"},
							append([]string{fmt.Sprintf("GOMAXPROCS=%d", jb.gmp)}, bn.env...))
						mu.Lock()
						defer mu.Unlock()
						execs += to - from
						for _, ln := range strings.Split(res, "\n") {
							if !strings.HasPrefix(ln, "{") || !strings.Contains(ln, "\"det\":") {
								continue
							}
							var d struct {
								Det *int64 `json:"det"`
							}
							if json.Unmarshal([]byte(ln), &d) != nil || d.Det == nil {
								continue
							}
							results[ji][*d.Det] = ln
						}
					}(ji, jb, from, to)
				}
			}
			wg.Wait()
			ref = results[0]
			for ji := range jobs {
				if len(results[ji]) != *nSeeds {
					mismatches = append(mismatches, fmt.Sprintf("job %+v produced %d of %d records", jobs[ji], len(results[ji]), *nSeeds))
				}
				for k, ln := range results[ji] {
					if ref[k] != ln {
						mismatches = append(mismatches, fmt.Sprintf("run %d differs between %+v and %+v:\n  %s\n  %s", k, jobs[0], jobs[ji], ref[k], ln))
					}
				}
			}
			key := pid + "/" + bn.name
			report[key] = map[string]any{"run_indices": *nSeeds, "executions": execs, "configurations": len(jobs), "mismatches": len(mismatches)}
			fmt.Printf("determinism %-10s %d run indices x %d process configurations (%d executions): %d mismatches\n", key, *nSeeds, len(jobs), execs, len(mismatches))
			for i, m := range mismatches {
				if i < 5 {
					fmt.Println("  " + m)
				}
			}
			bad += len(mismatches)
		}
		cleanupAll()
	}
	report["wall_s"] = time.Since(t0).Seconds()
	report["seed"] = *seed
	raw, _ := json.MarshalIndent(report, "", " ")
	os.MkdirAll(filepath.Join(outDir, "evidence"), 0o755)
	os.WriteFile(filepath.Join(outDir, "evidence", "determinism.json"), raw, 0o644)
	if bad > 0 {
		return 1
	}
	return 0
}

func runChildRaw(bin string, args, env []string) string {
	cmd := exec.Command(bin, args...)
	cmd.Env = append(os.Environ(), env...)
	var ob bytes.Buffer
	cmd.Stdout = &ob
	cmd.Run()
	return ob.String()
}
