package main

import "fmt"

func selftestDeterminism(args []string) int {
	fmt.Println("not built yet")
	return 2
}

func selftestSensitivity(args []string) int {
	fmt.Println("not built yet")
	return 2
}
