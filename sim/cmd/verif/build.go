package main

import (
	"bytes"
	"encoding/json"
	"fmt"
	"os"
	"os/exec"
	"path/filepath"
	"strings"
	"time"
)

// Paths of one check run's scratch area (DESIGN.md §2.1).
type scratch struct {
	dir      string
	ap       string // instrumented copy of the library
	h        string // copy of the harness module
	sim      string // plain child binary
	simRace  string // -race child binary (C12 only)
	instInfo struct {
		Sites     int `json:"sites"`
		MapRanges int `json:"map_ranges"`
		Files     int `json:"files"`
	}
	buildS float64
}

// verifDir is where bin/, sim/ and known_findings.json live: /verif, or the
// snapshot directory of a background run (VERIF_HOME).
var verifDir = "/verif"

// repoDir is /repo for every registered command. The self-tests point it at a
// scratch copy carrying a deliberate property-breaking change (VERIF_REPO) and
// redirect evidence and replay files away from /verif (VERIF_OUTDIR).
var (
	repoDir = "/repo"
	outDir  = "/verif"
)

func init() {
	if h := os.Getenv("VERIF_HOME"); h != "" {
		verifDir = h
		outDir = h
	}
	if r := os.Getenv("VERIF_REPO"); r != "" {
		repoDir = r
	}
	if o := os.Getenv("VERIF_OUTDIR"); o != "" {
		outDir = o
	}
}

func goEnv() []string {
	env := os.Environ()
	out := env[:0:0]
	for _, e := range env {
		if strings.HasPrefix(e, "GOFLAGS=") || strings.HasPrefix(e, "GOPROXY=") || strings.HasPrefix(e, "GOSUMDB=") ||
			strings.HasPrefix(e, "GOTOOLCHAIN=") || strings.HasPrefix(e, "GOWORK=") || strings.HasPrefix(e, "GO111MODULE=") {
			continue
		}
		out = append(out, e)
	}
	return append(out, "GOFLAGS=-mod=mod", "GOPROXY=off", "GOSUMDB=off", "GOTOOLCHAIN=local", "GOWORK=off", "GO111MODULE=on")
}

func fatal2(format string, a ...any) {
	fmt.Fprintf(os.Stderr, "verif: "+format+"\n", a...)
	cleanupAll()
	os.Exit(2)
}

var cleanups []func()

func cleanupAll() {
	for i := len(cleanups) - 1; i >= 0; i-- {
		cleanups[i]()
	}
	cleanups = nil
}

func copyFile(src, dst string) error {
	b, err := os.ReadFile(src)
	if err != nil {
		return err
	}
	return os.WriteFile(dst, b, 0o644)
}

func copyTree(src, dst string) error {
	return filepath.Walk(src, func(p string, fi os.FileInfo, err error) error {
		if err != nil {
			return err
		}
		rel, _ := filepath.Rel(src, p)
		t := filepath.Join(dst, rel)
		if fi.IsDir() {
			return os.MkdirAll(t, 0o755)
		}
		return copyFile(p, t)
	})
}

// prepare builds the scratch area from /repo's current working tree.
// gcflags selects the checkptr mode; race additionally builds sim-race.
func prepare(checkptr string, race bool, plain bool) *scratch {
	t0 := time.Now()
	base := "/dev/shm"
	if fi, err := os.Stat(base); err != nil || !fi.IsDir() {
		base = os.TempDir()
	}
	dir, err := os.MkdirTemp(base, "verif.")
	if err != nil {
		fatal2("mktemp: %v", err)
	}
	s := &scratch{dir: dir, ap: filepath.Join(dir, "ap"), h: filepath.Join(dir, "h")}
	cleanups = append(cleanups, func() { os.RemoveAll(dir) })
	if err := os.MkdirAll(s.ap, 0o755); err != nil {
		fatal2("%v", err)
	}
	// 1. copy the library's non-test sources
	ents, err := os.ReadDir(repoDir)
	if err != nil {
		fatal2("%v", err)
	}
	n := 0
	for _, e := range ents {
		name := e.Name()
		if e.IsDir() {
			continue
		}
		if name == "go.mod" || name == "go.sum" || (strings.HasSuffix(name, ".go") && !strings.HasSuffix(name, "_test.go")) {
			if err := copyFile(filepath.Join(repoDir, name), filepath.Join(s.ap, name)); err != nil {
				fatal2("%v", err)
			}
			n++
		}
	}
	if n < 3 {
		fatal2("no sources found in %s", repoDir)
	}
	mocks := filepath.Join(repoDir, "tests", "mocks")
	if _, err := os.Stat(mocks); err == nil {
		if err := copyTree(mocks, filepath.Join(s.ap, "verifmocks")); err != nil {
			fatal2("%v", err)
		}
	}
	// 2. instrument
	cmd := exec.Command(filepath.Join(verifDir, "bin", "instrument"), s.ap)
	cmd.Env = goEnv()
	var ob, eb bytes.Buffer
	cmd.Stdout, cmd.Stderr = &ob, &eb
	if err := cmd.Run(); err != nil {
		fatal2("instrument failed: %v\n%s", err, eb.String())
	}
	_ = json.Unmarshal(ob.Bytes(), &s.instInfo)
	// 3. harness module
	if err := copyTree(filepath.Join(verifDir, "sim"), s.h); err != nil {
		fatal2("%v", err)
	}
	gomod := "module verif.local/sim\n\ngo 1.23\n\nrequire github.com/go-ap/activitypub v0.0.0\n\nreplace github.com/go-ap/activitypub => ../ap\n"
	if err := os.WriteFile(filepath.Join(s.h, "go.mod"), []byte(gomod), 0o644); err != nil {
		fatal2("%v", err)
	}
	if err := copyFile(filepath.Join(s.ap, "go.sum"), filepath.Join(s.h, "go.sum")); err != nil {
		// go.sum may be absent in the working tree; -mod=mod recreates it from the module cache
		_ = os.Remove(filepath.Join(s.h, "go.sum"))
	}
	build := func(outName string, extra ...string) string {
		outPath := filepath.Join(dir, outName)
		args := append([]string{"build", "-o", outPath}, extra...)
		args = append(args, "./cmd/sim")
		c := exec.Command("go", args...)
		c.Dir = s.h
		c.Env = goEnv()
		var eb bytes.Buffer
		c.Stderr = &eb
		c.Stdout = &eb
		if err := c.Run(); err != nil {
			fatal2("building %s failed: %v\n%s", outName, err, eb.String())
		}
		return outPath
	}
	if plain {
		// checkptr instruments the library's own pointer conversions only (not the
		// harness or the standard library, where it would just cost time)
		s.sim = build("sim", "-gcflags=github.com/go-ap/activitypub=-d=checkptr="+checkptr)
	}
	if race {
		s.simRace = build("sim-race", "-race", "-gcflags=all=-d=checkptr=0")
	}
	s.buildS = time.Since(t0).Seconds()
	return s
}
