package main

import (
	"encoding/json"
	"fmt"
	"os"
	"path/filepath"
	"sort"
	"strconv"
	"strings"
	"time"

	"verif.local/sim/core"
)

// propConfig is the per-property budget and build configuration.
type propConfig struct {
	id          string
	level       string // evidence level
	checkptr    string // -d=checkptr value of the plain build
	race        bool   // also build and run sim-race
	plain       bool
	quickRuns   uint64
	thorRuns    uint64
	quickRace   uint64
	thorRace    uint64
	enumQuick   bool
	enumThor    bool
	memKB       int64
	quickWall   time.Duration
	thorWall    time.Duration
	runTimeout  time.Duration // watchdog for a single replayed run
	blackbox    bool          // children keep the in-flight input in a shared file
	stall       time.Duration // children end themselves when a run stalls this long
	gomaxprocs  int
	rule        string
	assumptions []string
	realCode    []string
	stubCode    []string
}

var configs = map[string]*propConfig{
	"C12": {
		id: "C12", level: "exploration", checkptr: "1", plain: true, race: true,
		quickRuns: 12000, thorRuns: 400000, quickRace: 6000, thorRace: 150000,
		memKB: 6 << 20, quickWall: 80 * time.Second, thorWall: 30 * time.Minute, runTimeout: 60 * time.Second,
		stall: 120 * time.Second, gomaxprocs: 8,
		rule: "one run = 2..6 tasks (real goroutines, exactly one running, handed off through raw pipe syscalls that ThreadSanitizer cannot see) x 1..6 operations each, drawn from the derived read-only catalogue (every exported package function and every method of the shared value, of its language-value / item-list / id sub-values and of collection paths whose arguments can be synthesised by type, minus the justified mutator list; fmt verbs; decoding of private clean or damaged inputs), on a generated shared value v and a second value w (v itself, the smallest value, or an independent one), under a scheduling policy drawn per run: random walk (switch probability 1/4..1/256 per library statement), d=1..4 preemptions at drawn task-local steps, or PCT with d=1..3 priority change points. distinct = distinct hash of the switch sequence (from,to,site)*; non-trivial = at least one context switch fell inside an operation on the shared value.",
		assumptions: []string{
			"preemption granularity is one library statement; segments inside dependencies (fastjson, jsonld, encoding/gob, fmt) are atomic in the simulation, though ThreadSanitizer still sees their memory accesses",
			"mutators are excluded by an explicit list, each entry justified by the function's documentation (props/c12/ops.go); views onto a struct wider than the value handed in are C08's subject and are not driven",
			"type names are only placed on the Go struct the registry maps them to (type-consistent domain)",
			"ThreadSanitizer keeps a bounded access history; the canary run of every race batch proves the oracle is live in that binary",
		},
		realCode: []string{"github.com/go-ap/activitypub (instrumented scratch copy)", "github.com/valyala/fastjson", "github.com/go-ap/jsonld", "git.sr.ht/~mariusor/go-xsd-duration", "encoding/gob", "fmt", "Go runtime + ThreadSanitizer (sim-race)"},
		stubCode: []string{"scheduler and pipe hand-off", "caller tasks (clients)", "value generator", "wire faults on private decode inputs"},
	},
	"C04": {
		id: "C04", level: "fault_enumeration", checkptr: "1", plain: true,
		quickRuns: 250000, thorRuns: 6000000, enumQuick: true, enumThor: true,
		memKB: 6 << 20, quickWall: 80 * time.Second, thorWall: 25 * time.Minute, runTimeout: 30 * time.Second,
		blackbox: true, stall: 90 * time.Second,
		rule: "writer -> faulty wire/disk -> reader. Enumeration tier: a corpus of clean messages (for every exported decode entry point three generated values of growing size encoded with the matching encoder, plus every repository mock at pkg.UnmarshalJSON, Object.UnmarshalJSON and one further JSON entry point) x every torn-write point (prefix length 0..len-1) x every single-bit flip x every single-chunk drop / duplicate / zero at chunk sizes 4, 16, 64, at the addressed entry point (thorough: also at the package-level entry point of the codec; quick: only the two smaller value sizes, and messages over 300 bytes are enumerated with a stride). Seeded tier: generated value (or mock) -> 1..3 faults from {truncate, drop/dup/swap/zero chunk, bit flip, stale tail, splice, total loss} with a per-run subset of kinds and chunk size, 1 in 8 runs misdirected to another entry point; a fault-free control configuration runs as a separate mode. Every value a decoder returns is followed up with IsNil, NotEmpty, ItemsEqual(x,x), MarshalJSON, GobEncode, fmt verbs and every read-only niladic method. distinct = distinct (run seed | corpus message, reader entry point, fault program); non-trivial = the damaged bytes differ from the clean bytes and were handed to the decoder.",
		assumptions: []string{
			"decides C04 for byte strings within three storage/transport faults of an encoding the library or a repository mock produces, not for all byte strings (hostile shapes no fault produces are outside, DESIGN.md §4.5)",
			"decode errors and round-trip mismatches are counted, never reported (C01/C03/C05's subject)",
			"the binary is built with -d=checkptr so that an out-of-bounds pointer view is a deterministic throw",
			"hang = more than 1000 x the clean decode's steps + 10^6 + 2000 per input byte of executed library statements, or no progress for 90 s of wall clock inside uninstrumented dependencies (re-checked by replay)",
		},
		realCode: []string{"github.com/go-ap/activitypub (instrumented scratch copy)", "github.com/valyala/fastjson", "github.com/go-ap/jsonld", "encoding/gob", "fmt"},
		stubCode: []string{"writer (value generator + the library's own encoders)", "wire/disk with fault programs", "reader client"},
	},
	"C13": {
		id: "C13", level: "exploration", checkptr: "1", plain: true,
		quickRuns: 120000, thorRuns: 3000000, enumQuick: true, enumThor: true,
		memKB: 4 << 20, quickWall: 70 * time.Second, thorWall: 15 * time.Minute, runTimeout: 20 * time.Second,
		rule: "seeded histories (1..14 calls quick, 1..40 thorough) of Append(x) / Append(x,y,x) / Remove(x) / Remove(nil) / Contains / Count on the six collection kinds, over a generated pool of 3..8 items with pairwise distinct ids in the shapes IRI, *Object, Object, *Actor, Actor, *Activity, Activity (nested properties from the reflect-driven generator), with knobs: initial contents nil or a literal prefix of the pool, exact or spare capacity holding sentinel members, access through the type's own methods, through OnCollectionIntf, or mixed; Remove always through the item-list view (OnItemCollection). Plus the bounded-exhaustive tier: every sequence of length 1..L (L=4 quick, 5 thorough) over the 9-letter alphabet {Append(p_i), Remove(p_i), Append(p_i,p_j,p_i)} on a 3-item pool, for every kind x 3 pool-shape variants x spare capacity {0,2} x initial members {0,2} x access {direct, OnCollectionIntf}. distinct = distinct hash of the rendered history (seeded) / distinct enumerated tuple (exhaustive); non-trivial = contains at least one Append or Remove.",
		assumptions: []string{
			"pool items carry pairwise distinct ids; list-valued properties of pool items carry ids (the domain the properties state for lists); Link values are not placed inside pool items (Link equality is C09's subject, not a collection behaviour)",
			"OnCollectionIntf and ToItemCollection present an IRI list as a converted copy (documented), so writes through them are not part of an IRI list's history; Remove is not defined on IRI lists",
			"single caller goroutine (the containers are documented as not safe for concurrent mutation); no fault or schedule dimension exists for this property (DESIGN.md §5)",
		},
		realCode: []string{"github.com/go-ap/activitypub (instrumented scratch copy of /repo's working tree)"},
		stubCode: []string{"history generator (clients)", "reference insertion-ordered set of ids", "reflect-driven item generator"},
	},
	"C19": {
		id: "C19", level: "exploration", checkptr: "1", plain: true,
		quickRuns: 400000, thorRuns: 30000000, enumQuick: true, enumThor: true,
		memKB: 4 << 20, quickWall: 60 * time.Second, thorWall: 10 * time.Minute, runTimeout: 20 * time.Second,
		rule: "seeded histories of Set/Append/Add/Get/Count/First over a swarm-randomised alphabet of tags (incl. the nil tag and the empty tag) and texts, with initial contents nil / empty / literal / literal with spare capacity; plus seeded pairs of lists without repeated tags for Equals (copy, permutation, one text or tag changed, one entry dropped or added, independent); plus the bounded-exhaustive tier: every call sequence of length 1..L (L=4 quick, 5 thorough) over the 23-letter alphabet {Set, Append, Add} x {nil tag, en, empty tag} x {empty text, a} + Get x 3 tags + Count + First, from four initial lists (nil, empty, one entry, one entry with spare capacity). A case is the rendered operation sequence (or pair); distinct = distinct hash of it; non-trivial = the history contains at least one state-changing call, or (Equals) the two lists hold at least two entries in total.",
		assumptions: []string{
			"Append and Add append exactly one entry at the end (documented on Append); what Set does to later entries with the same tag is left open by the property and every behaviour satisfying its clauses is accepted",
			"the container is used from one goroutine (documented as not safe for concurrent mutation); no fault or schedule dimension exists for this property (DESIGN.md §5)",
		},
		realCode: []string{"github.com/go-ap/activitypub (instrumented scratch copy of /repo's working tree)"},
		stubCode: []string{"history generator (clients)", "reference list of (tag,text) pairs"},
	},
}

type knownFinding struct {
	Property  string `json:"property"`
	Signature string `json:"signature"`
	Status    string `json:"status"` // open | fixed
	Commit    string `json:"commit,omitempty"`
	What      string `json:"what"`
}

func loadKnown() []knownFinding {
	raw, err := os.ReadFile(filepath.Join(verifDir, "known_findings.json"))
	if err != nil {
		return nil
	}
	var k struct {
		Findings []knownFinding `json:"findings"`
	}
	if err := json.Unmarshal(raw, &k); err != nil {
		fatal2("known_findings.json: %v", err)
	}
	return k.Findings
}

func matchKnown(known []knownFinding, prop, class string) *knownFinding {
	for i := range known {
		k := &known[i]
		if k.Property != prop || k.Status != "open" {
			continue
		}
		if k.Signature == class {
			return k
		}
		// (the last element of a time finding's signature is the function that holds the loop: a
		// refactoring that only changes the case of its name – JSONGetItems made private – has not
		// repaired the defect and has not introduced a new one)
		if strings.HasPrefix(class, prop+"/time/") && strings.EqualFold(k.Signature, class) {
			return k
		}
		if strings.HasSuffix(k.Signature, "*") && strings.HasPrefix(class, strings.TrimSuffix(k.Signature, "*")) {
			return k
		}
	}
	return nil
}

func envSeed(tier string) uint64 {
	if s := os.Getenv("VERIF_SEED"); s != "" {
		if v, err := strconv.ParseUint(s, 10, 64); err == nil {
			return v
		}
		if v, err := strconv.ParseInt(s, 10, 64); err == nil {
			return uint64(v)
		}
	}
	if tier == "thorough" {
		return 20261001
	}
	return 1
}

type finding struct {
	foundTrace any // the trace of the run in which the violation was first seen (fault program, ops)
	class      string
	oracle     string
	detail     string
	count      int
	replay     string
	known      *knownFinding
	minEvals   int
	rendered   any
	tapeLen    [2]int
}

// check runs one property's check and returns the process exit code.
func check(propID, tier string) int {
	cfg := configs[propID]
	if cfg == nil {
		fmt.Fprintf(os.Stderr, "verif: property %s has no check (see MANIFEST.json not_applicable)\n", propID)
		return 2
	}
	if t := os.Getenv("VERIF_TIER"); t == "quick" || t == "thorough" {
		tier = t
	}
	seed := envSeed(tier)
	t0 := time.Now()
	fmt.Printf("verif: property=%s tier=%s VERIF_SEED=%d\n", propID, tier, seed)
	sc := prepare(cfg.checkptr, cfg.race, cfg.plain)
	defer cleanupAll()
	fmt.Printf("verif: built from /repo working tree in %.1fs (%d yield sites, %d map ranges rewritten)\n", sc.buildS, sc.instInfo.Sites, sc.instInfo.MapRanges)

	runs, raceRuns, wall, doEnum := cfg.quickRuns, cfg.quickRace, cfg.quickWall, cfg.enumQuick
	if tier == "thorough" {
		runs, raceRuns, wall, doEnum = cfg.thorRuns, cfg.thorRace, cfg.thorWall, cfg.enumThor
	}
	deadline := time.Now().Add(wall)
	workers := 16
	b := newBatch()
	gmp := "GOMAXPROCS=2"
	if cfg.gomaxprocs > 0 {
		gmp = fmt.Sprintf("GOMAXPROCS=%d", cfg.gomaxprocs)
	}
	plainEnv := []string{gmp}
	raceEnv := []string{gmp, "GORACE=halt_on_error=1 exitcode=66 atexit_sleep_ms=0 history_size=2", "GOMEMLIMIT=3GiB"}
	tRun := time.Now()
	if doEnum && cfg.plain {
		// the enumeration may use at most 60% of the wall budget; the seeded search gets the rest
		enumDeadline := time.Now().Add(wall * 6 / 10)
		fanOutEnum(b, sc.sim, propID, tier, workers, plainEnv, cfg.memKB, enumDeadline, cfg.blackbox, cfg.stall)
		if _, hit := b.extra["deadline_reached"]; hit {
			delete(b.extra, "deadline_reached")
			b.extra["enum_incomplete_deadline"] = true
		} else {
			b.extra["enum_completed"] = true
		}
	}
	if cfg.plain && runs > 0 {
		fanOutSeeds(b, sc.sim, propID, tier, seed, runs, workers, plainEnv, cfg.memKB, 1, deadline, false, cfg.blackbox, cfg.stall)
	}
	plainRuns := b.runs
	if cfg.race && raceRuns > 0 {
		// canary: the race oracle must fire on a harness-owned planted race in this very binary
		cres := runChild(childOpts{bin: sc.simRace, args: []string{"run", "--prop", propID, "--tier", tier, "--seed", "1", "--from", "0", "--to", "1"},
			env: append(append([]string(nil), raceEnv...), "VERIF_CANARY=1"), timeout: 60 * time.Second})
		if cres.exitCode == 66 && strings.Contains(cres.stderr, "canaryWrite") {
			b.extra["race_canary_fired"] = true
		} else {
			fatal2("race canary did not fire (exit %d): the race oracle is not live in this binary\n%s", cres.exitCode, tailStr(cres.stderr, 2000))
		}
		// the race batch uses run indices disjoint from the plain batch
		// one child process per 33 consecutive run indices (= c12.ColdEvery): the first run of each
		// process is a cold-start run
		fanOutChunks(b, sc.simRace, propID, tier, seed^0x5ace, raceRuns, 33, workers, raceEnv, deadline, true, cfg.stall)
	}
	runWall := time.Since(tRun).Seconds()

	// ---- collect violation classes
	known := loadKnown()
	byClass := map[string]*finding{}
	firstPlan := map[string]*core.Plan{}
	firstBin := map[string]string{}
	hard := []string{}
	addViol := func(class, oracle, detail string, plan *core.Plan, bin string, rendered any) {
		f := byClass[class]
		if f == nil {
			f = &finding{class: class, oracle: oracle, detail: detail, rendered: rendered, foundTrace: rendered}
			byClass[class] = f
			firstPlan[class] = plan
			firstBin[class] = bin
		}
		f.count++
	}
	for _, r := range b.violations {
		bin := sc.sim
		addViol(r.Viol.Class, r.Viol.Oracle, r.Viol.Detail, r.Plan, bin, r.Sample)
	}
	for _, d := range b.deaths {
		oracle, class, detail, ok := classifyDeath(propID, d)
		if !ok {
			if strings.Contains(d.stderr, "verif-watchdog:") && d.k >= 0 && !d.hasBox {
				// The wall-clock watchdog is the one oracle that depends on the host: a child that got no
				// processor for the stall period (an overloaded machine) looks like a stalled run. The run
				// is a function of its index: run it again, alone, in a fresh process. If it completes, the
				// stall was the host's and the run's result is the re-run's; if it stalls again, it stands.
				ev := &evaluator{bin: sc.sim, env: plainEnv, memKB: cfg.memKB, dir: sc.dir, prop: propID, timeout: cfg.runTimeout}
				s := seed
				if d.race {
					ev.bin, ev.env, ev.memKB, ev.race = sc.simRace, raceEnv, 0, true
					s = seed ^ 0x5ace
				}
				plan := &core.Plan{Property: propID, Tier: tier, Mode: "@" + strconv.FormatInt(d.k, 10), Seed: core.Mix(s, uint64(d.k)), RunIndex: uint64(d.k)}
				if r := ev.eval(plan); r.class == "" && !r.hard && r.rec != nil {
					b.probes["stalled_run_completed_when_rerun_alone"]++
					continue
				}
			}
			hard = append(hard, fmt.Sprintf("child died without a classifiable report (run %d group %q): %s", d.k, d.group, detail))
			continue
		}
		bin := sc.sim
		s := seed
		if d.race {
			bin = sc.simRace
			s = seed ^ 0x5ace
		}
		var plan *core.Plan
		if d.hasBox {
			plan = &core.Plan{Property: propID, Tier: tier, Mode: "direct", Entry: d.entry, Input: d.input, Tape: []uint32{}}
		} else if d.k >= 0 {
			plan = &core.Plan{Property: propID, Tier: tier, Mode: "", Seed: core.Mix(s, uint64(d.k)), Tape: nil}
			plan.Mode = "@" + strconv.FormatInt(d.k, 10) // resolved by the child from the run index
			plan.RunIndex = uint64(d.k)
		}
		addViol(class, oracle, detail, plan, bin, nil)
	}
	if v, ok := b.extra["child_failed_to_start"]; ok {
		hard = append(hard, fmt.Sprintf("a child failed before its first run: %v", v))
	}

	// ---- minimise, replay twice, write replay files
	classes := make([]string, 0, len(byClass))
	for c := range byClass {
		classes = append(classes, c)
	}
	sort.Strings(classes)
	minBudget := 25 * time.Second
	if tier == "thorough" {
		minBudget = 120 * time.Second
	}
	if len(classes) > 4 {
		n := len(classes)
		if n > 8 {
			n = 8
		}
		minBudget = minBudget / time.Duration(n/4+1)
	}
	os.MkdirAll(filepath.Join(outDir, "replays"), 0o755)
	minimised := 0
	for _, class := range classes {
		f := byClass[class]
		f.known = matchKnown(known, propID, class)
		plan := firstPlan[class]
		if plan == nil {
			hard = append(hard, fmt.Sprintf("violation class %s has no replayable plan: %s", class, f.detail))
			continue
		}
		bin := firstBin[class]
		ev := &evaluator{bin: bin, env: plainEnv, memKB: cfg.memKB, dir: sc.dir, prop: propID, timeout: cfg.runTimeout}
		if bin == sc.simRace {
			ev.env, ev.memKB, ev.race = raceEnv, 0, true
		}
		plan.Property, plan.Tier = propID, tier
		// materialise the tape when the run died before reporting it
		if plan.Tape == nil && len(plan.Case) == 0 && plan.Entry == "" {
			mat := materialise(ev, plan)
			for try := 0; mat == nil && ev.race && try < 4; try++ {
				// (whether ThreadSanitizer still holds the earlier access in its shadow memory when the
				// later one happens varies between executions of the same schedule: try again)
				mat = materialise(ev, plan)
			}
			if mat == nil {
				hard = append(hard, fmt.Sprintf("class %s: death of run %s did not reproduce when re-run alone: %s", class, plan.Mode, f.detail))
				continue
			}
			plan = mat
		}
		f.tapeLen[0] = len(plan.Tape) + len(plan.Input)
		min := plan
		minimised++
		if f.known != nil {
			// a listed finding is reported with the plan as found: no search is spent on it again
			minimised--
		} else if len(plan.Case) == 0 && minimised <= 8 {
			// (beyond eight classes in one run the remaining ones are reported with their
			// first failing plan as found; they replay all the same)
			min, f.minEvals = minimise(ev, plan, class, minBudget)
		}
		f.tapeLen[1] = len(min.Tape) + len(min.Input)
		// replay twice in fresh processes: both must fail identically
		r1 := ev.eval(min)
		r2 := ev.eval(min)
		flaky := ""
		if r1.class != class || r2.class != class || (r1.rec != nil && r2.rec != nil && r1.rec.LogHash != r2.rec.LogHash) {
			// The code under test may itself be nondeterministic (a sync.Pool, state kept between
			// calls): fall back to the plan as found and accept a replay that shows *a* violation of
			// this property; only a report that no replay reproduces at all is withheld (exit 2).
			got := 0
			var last evalResult
			for i := 0; i < 4; i++ {
				r := ev.eval(plan)
				if r.class != "" && !r.hard {
					got++
					last = r
				}
			}
			if got == 0 && plan.HistoryStride > 0 && plan.Entry == "" && len(plan.Case) == 0 {
				// The run alone does not show it: what the process had executed before may matter (state
				// that builds up over thousands of calls). Replay the process: the same runs, in the same
				// order, in a fresh process, then the failing run.
				hp := clonePlan(plan)
				hp.HistoryOn = true
				hev := *ev
				hev.timeout = 10 * cfg.runTimeout
				h1 := hev.eval(hp)
				h2 := hev.eval(hp)
				if h1.class == class && h2.class == class {
					plan, got, last = hp, 2, h1
					f.detail = fmt.Sprintf("(needs the process history: the replay first re-executes run indices %d, %d, … below %d of the batch in the same process)\n", hp.HistoryFrom, hp.HistoryFrom+hp.HistoryStride, hp.RunIndex) + f.detail
				}
			}
			if got == 0 {
				hard = append(hard, fmt.Sprintf("class %s: no replay of the failing run reproduces any violation (minimised: %q, %q); first report:\n%s", class, r1.class, r2.class, tailStr(f.detail, 6000)))
				continue
			}
			min = plan
			r1 = last
			flaky = fmt.Sprintf("the violation depends on state outside the run plan (the code under test is not a function of its inputs): %d of 4 replays of the plan as found showed a violation; class on replay %s", got, last.class)
		}
		min.Expect = &core.Expect{Class: class}
		if r1.rec != nil {
			min.Expect.LogHash = r1.rec.LogHash
			min.Rendered = r1.rec.Sample
			f.rendered = r1.rec.Sample
			f.detail = r1.detail
		}
		if flaky != "" {
			f.detail = flaky + "\n" + f.detail
		}
		if r1.rec == nil && cfg.plain && bin == sc.simRace {
			// the run killed its (race) process, so it left no trace: render the same plan with the
			// plain binary, which follows the same tape and schedule
			pev := &evaluator{bin: sc.sim, env: plainEnv, memKB: cfg.memKB, dir: sc.dir, prop: propID, timeout: cfg.runTimeout}
			if pr := pev.eval(min); pr.rec != nil {
				min.Rendered = pr.rec.Sample
				f.rendered = pr.rec.Sample
			}
		}
		name := fmt.Sprintf("%s-%s-%s.json", propID, tier, core.HashStr(class)[:10])
		path := filepath.Join(outDir, "replays", name)
		raw, _ := json.MarshalIndent(struct {
			*core.Plan
			Class      string `json:"class"`
			Oracle     string `json:"oracle"`
			Detail     string `json:"detail"`
			FoundTrace any    `json:"found_in_run,omitempty"` // trace of the run that first showed it (writer, fault program, reader)
		}{min, class, f.oracle, f.detail, f.foundTrace}, "", " ")
		if err := os.WriteFile(path, raw, 0o644); err != nil {
			fatal2("%v", err)
		}
		f.replay = path
	}

	// ---- report
	exit := 0
	nViol := 0
	var findingsOut []map[string]any
	for _, class := range classes {
		f := byClass[class]
		if f.replay == "" {
			continue
		}
		entry := map[string]any{"class": class, "oracle": f.oracle, "occurrences": f.count, "replay": f.replay, "detail": firstLine(f.detail), "tape_len_before_after": f.tapeLen, "minimiser_evals": f.minEvals}
		if f.known != nil {
			fmt.Printf("KNOWN-FINDING: property=%s %s (signature %s, replay %s)\n", propID, f.known.What, f.known.Signature, f.replay)
			entry["known_finding"] = f.known.Signature
		} else {
			fmt.Printf("VIOLATION property=%s replay=%s\n", propID, f.replay)
			fmt.Printf("  class=%s occurrences=%d\n  %s\n", class, f.count, strings.ReplaceAll(f.detail, "\n", "\n  "))
			nViol++
			exit = 1
		}
		findingsOut = append(findingsOut, entry)
	}
	if len(hard) > 0 {
		for _, h := range hard {
			fmt.Fprintf(os.Stderr, "verif: HARNESS-ERROR: %s\n", h)
		}
		if exit == 0 {
			exit = 2
		}
	}

	// ---- evidence
	wallS := time.Since(t0).Seconds()
	var samples []any
	for i, s := range b.samples {
		if i >= 6 {
			break
		}
		samples = append(samples, map[string]any{"mode": s.Mode, "seed": s.Seed, "steps": s.Steps, "trace": s.Sample})
	}
	for _, class := range classes {
		if f := byClass[class]; f.rendered != nil {
			samples = append(samples, map[string]any{"violating_case_minimised": f.rendered, "class": class})
		}
	}
	if len(samples) == 0 {
		samples = append(samples, "no sample was emitted by the children")
	}
	cov := map[string]any{
		"evaluations":          b.runs + intExtra(b.extra, "enum_cases"),
		"distinct_nontrivial":  len(b.distinct) + intExtra(b.extra, "enum_distinct_nontrivial"),
		"rule":                 cfg.rule,
		"samples":              samples,
		"simulated_runs":       b.runs,
		"plain_runs":           plainRuns,
		"race_runs":            b.runs - plainRuns,
		"runs_per_hour":        int(float64(b.runs) / maxf(runWall, 0.001) * 3600),
		"seeds":                fmt.Sprintf("run k uses seed mix(VERIF_SEED=%d, k), k in [0,%d)", seed, runs),
		"simulated_time_steps": b.steps,
		"context_switches":     b.switches,
		"faults_injected":      b.faults,
		"probes":               b.probes,
		"yield_sites_total":    b.sitesTotal,
		"yield_sites_reached":  len(b.sitesHit),
		"components_real":      cfg.realCode,
		"components_stub":      cfg.stubCode,
		"build_s":              sc.buildS,
		"run_wall_s":           runWall,
		"workers":              workers,
		"findings":             findingsOut,
		"exhaustive":           false,
	}
	// reach by function of the library: which functions had at least one statement executed in this
	// batch, and which of the functions in the property's anchor files were never entered
	if names := readSiteTable(sc); len(names) > 0 {
		fnAll, fnHit := map[string]bool{}, map[string]bool{}
		for i, n := range names {
			fn := siteFunc(n)
			fnAll[fn] = true
			if b.sitesHit[uint32(i)] {
				fnHit[fn] = true
			}
		}
		anchor := anchorFiles(propID)
		var miss []string
		nAnchor, nAnchorHit := 0, 0
		for fn := range fnAll {
			if !anchor[strings.SplitN(fn, ":", 2)[0]] {
				continue
			}
			nAnchor++
			if fnHit[fn] {
				nAnchorHit++
			} else {
				miss = append(miss, fn)
			}
		}
		sort.Strings(miss)
		cov["library_functions_total"] = len(fnAll)
		cov["library_functions_entered"] = len(fnHit)
		cov["anchor_file_functions_total"] = nAnchor
		cov["anchor_file_functions_entered"] = nAnchorHit
		cov["anchor_file_functions_never_entered"] = miss
	}
	for k, v := range b.extra {
		cov["x_"+k] = v
	}
	for h, m := range b.counts {
		cov["count_"+h] = m
	}
	if len(b.distinct2) > 0 {
		cov["distinct_preemption_pairs"] = len(b.distinct2)
	}
	ev := map[string]any{
		"property_id": propID,
		"tier":        tier,
		"seed":        int64(seed & 0x7fffffffffffffff),
		"level":       cfg.level,
		"coverage":    cov,
		"assumptions": cfg.assumptions,
		"wall_s":      wallS,
		"violations":  nViol,
	}
	if exit != 2 {
		writeEvidence(propID, ev)
		// keep the latest evidence of each tier as well (the main file is rewritten by every run)
		writeEvidence(propID+"."+tier, ev)
	}
	fmt.Printf("verif: %s %s: %d runs, %d distinct non-trivial cases, %d steps simulated, %d violation class(es), %.1fs\n", propID, tier, b.runs, len(b.distinct), b.steps, nViol, wallS)
	return exit
}

func intExtra(m map[string]any, k string) int {
	if f, ok := m[k].(float64); ok {
		return int(f)
	}
	return 0
}

func maxf(a, b float64) float64 {
	if a > b {
		return a
	}
	return b
}

func firstLine(s string) string {
	if i := strings.Index(s, "\n"); i >= 0 {
		return s[:i]
	}
	return s
}

func writeEvidence(propID string, ev map[string]any) {
	os.MkdirAll(filepath.Join(outDir, "evidence"), 0o755)
	raw, err := json.MarshalIndent(ev, "", " ")
	if err != nil {
		fatal2("evidence: %v", err)
	}
	if err := os.WriteFile(filepath.Join(outDir, "evidence", propID+".json"), raw, 0o644); err != nil {
		fatal2("evidence: %v", err)
	}
}

// materialise re-runs a run that killed its child alone, with the tape
// journal on, and returns the plan with the explicit tape (and schedule).
func materialise(ev *evaluator, plan *core.Plan) *core.Plan {
	j := filepath.Join(ev.dir, fmt.Sprintf("journal.%d", time.Now().UnixNano()))
	env := append(append([]string(nil), ev.env...), "VERIF_JOURNAL="+j)
	save := ev.env
	ev.env = env
	r := ev.eval(plan)
	ev.env = save
	defer os.Remove(j)
	if r.class == "" {
		return nil
	}
	raw, err := os.ReadFile(j)
	if err != nil {
		return nil
	}
	out := clonePlan(plan)
	out.Tape = []uint32{}
	for _, ln := range strings.Split(string(raw), "\n") {
		var a, b2 int64
		switch {
		case strings.HasPrefix(ln, "M "):
			out.Mode = strings.TrimPrefix(ln, "M ")
		case strings.HasPrefix(ln, "T "):
			fmt.Sscanf(ln[2:], "%d", &a)
			out.Tape = append(out.Tape, uint32(a))
		case strings.HasPrefix(ln, "S "):
			fmt.Sscanf(ln[2:], "%d %d", &a, &b2)
			out.Schedule = append(out.Schedule, [2]int64{a, b2})
		}
	}
	return out
}

// readSiteTable returns the instrumenter's table of yield sites ("file:line:function") of this build.
func readSiteTable(sc *scratch) []string {
	raw, err := os.ReadFile(filepath.Join(sc.ap, "verifsim", "sites.go"))
	if err != nil {
		return nil
	}
	var out []string
	for _, l := range strings.Split(string(raw), "\n") {
		l = strings.TrimSpace(l)
		if strings.HasPrefix(l, "\"") && strings.HasSuffix(l, "\",") {
			if u, err := strconv.Unquote(strings.TrimSuffix(l, ",")); err == nil {
				out = append(out, u)
			}
		}
	}
	return out
}

// siteFunc is "file.go:Function" of a site name "file.go:line:Function".
func siteFunc(site string) string {
	parts := strings.SplitN(site, ":", 3)
	if len(parts) == 3 {
		return parts[0] + ":" + parts[2]
	}
	return site
}

// anchorFiles are the files the property is anchored in (properties.jsonl).
func anchorFiles(propID string) map[string]bool {
	out := map[string]bool{}
	raw, err := os.ReadFile(filepath.Join(verifDir, "properties.jsonl"))
	if err != nil {
		return out
	}
	for _, l := range strings.Split(string(raw), "\n") {
		var p struct {
			ID      string `json:"id"`
			Anchors struct {
				Files []string `json:"files"`
			} `json:"anchors"`
		}
		if json.Unmarshal([]byte(l), &p) == nil && p.ID == propID {
			for _, f := range p.Anchors.Files {
				out[f] = true
			}
		}
	}
	return out
}
